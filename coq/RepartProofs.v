(* RepartProofs.v -- soundness of a plan checker for RepartitionDivisions plans, and
   kernel-checked completeness of the checker on every plan `repart_plan` generates in a bounded domain.
   Stdlib only, no axioms. *)
From DX Require Import Base Repart.
From Coq Require Import Lia ZArith List Bool Arith.
Import ListNotations.
Open Scope Z_scope.

(* the model declares `row` explicitly; make it implicit here so that statements read as in the task *)
Arguments exec_slice {row}. Arguments exec_out {row}. Arguments exec_plan {row}.
Arguments spec_out {row}. Arguments spec_plan {row}.
Arguments respects {row}. Arguments parts_sorted {row}.

(* ------------------------------------------------------------------------------------------ *)
(* Intervals  [lo, h)  or  [lo, h]  (c = true).  No use of the discreteness of Z is made: the   *)
(* upper end is the pair (h, c) ordered lexicographically.                                      *)
(* ------------------------------------------------------------------------------------------ *)
Definition ivl := (Z * (Z * bool))%type.
Definition memb (I : ivl) (x : Z) : bool :=
  let '(lo, (h, c)) := I in (lo <=? x) && ((x <? h) || (c && (x =? h))).
Definition ivl_of (s : slice) : ivl := (s_lo s, (s_hi s, s_closed s)).
Definition tgt (b : list Z) (j : nat) : ivl :=
  (nthZ b j, (nthZ b (S j), (S (S j) =? length b)%nat)).
Definition ub_le (u1 u2 : Z * bool) : bool :=
  let '(h1, c1) := u1 in let '(h2, c2) := u2 in (h1 <? h2) || ((h1 =? h2) && implb c1 c2).
Definition ub_min (u1 u2 : Z * bool) : Z * bool := if ub_le u1 u2 then u1 else u2.
Definition inter (I J : ivl) : ivl := (Z.max (fst I) (fst J), ub_min (snd I) (snd J)).
Definition iempty (I : ivl) : bool :=
  let '(lo, (h, c)) := I in (h <? lo) || ((h =? lo) && negb c).
Definition ieq (I J : ivl) : bool :=
  (iempty I && iempty J) ||
  ((fst I =? fst J) && (fst (snd I) =? fst (snd J)) && Bool.eqb (snd (snd I)) (snd (snd J))).

Definition dslice : slice := {| s_src := 0; s_lo := 0; s_hi := 0; s_closed := false |}.
Definition getS (sl : list slice) (k : nat) : slice := nth k sl dslice.

Definition ks_of (o : outp) : list nat :=
  match o with ODummy => [] | OAlias k => [k] | OConcat ks => ks end.

Fixpoint eqb_nats (l1 l2 : list nat) : bool :=
  match l1, l2 with
  | [], [] => true
  | x :: r1, y :: r2 => (x =? y)%nat && eqb_nats r1 r2
  | _, _ => false
  end.

Definition empty_ivl : ivl := (0, (0, false)).

(* a chain of slices  [c0,c1) [c1,c2) ... [c_{m-1}, c_m)|]  with c0 <= c1 <= ... <= c_m;
   only the last one may be closed *)
Fixpoint chain_ok (ss : list slice) : bool :=
  match ss with
  | [] => true
  | s :: r =>
      (s_lo s <=? s_hi s) &&
      match r with
      | [] => true
      | s2 :: _ => negb (s_closed s) && (s_hi s =? s_lo s2) && chain_ok r
      end
  end.
(* the interval a chain covers *)
Fixpoint hull (ss : list slice) : ivl :=
  match ss with
  | [] => empty_ivl
  | s :: r => match r with [] => ivl_of s | _ :: _ => (s_lo s, snd (hull r)) end
  end.

(* the slice numbers of one output that read source partition i, in plan order *)
Definition group (sl : list slice) (ks : list nat) (i : nat) : list nat :=
  filter (fun k => (s_src (getS sl k) =? i)%nat) ks.

(* on source partition i (index range  tgt a i) the chain must select exactly the target range *)
Definition check_src (a b : list Z) (sl : list slice) (j : nat) (ks : list nat) (i : nat) : bool :=
  let ss := map (getS sl) (group sl ks i) in
  chain_ok ss && ieq (inter (hull ss) (tgt a i)) (inter (tgt b j) (tgt a i)).

(* output j: its slice list is the concatenation of its per-source groups, sources 0..n-1 in
   order (so every slice has s_src < n and the sources are non-decreasing), and every group is ok *)
Definition check_out (a b : list Z) (sl : list slice) (j : nat) (ks : list nat) : bool :=
  let n := (length a - 1)%nat in
  eqb_nats (concat (map (group sl ks) (seq 0 n))) ks &&
  forallb (check_src a b sl j ks) (seq 0 n).

Definition plan_ok (a b : list Z) (pl : plan) : bool :=
  (length (p_outs pl) =? length b - 1)%nat &&
  forallb (fun j => check_out a b (p_slices pl) j (ks_of (nth j (p_outs pl) ODummy)))
          (seq 0 (length b - 1)).

(* ------------------------------------------------------------------------------------------ *)
(* interval facts                                                                              *)
(* ------------------------------------------------------------------------------------------ *)
Ltac zb :=
  repeat match goal with
  | H : context [?x <=? ?y] |- _ => destruct (Z.leb_spec x y)
  | H : context [?x <? ?y] |- _ => destruct (Z.ltb_spec x y)
  | H : context [?x =? ?y] |- _ => destruct (Z.eqb_spec x y)
  | |- context [?x <=? ?y] => destruct (Z.leb_spec x y)
  | |- context [?x <? ?y] => destruct (Z.ltb_spec x y)
  | |- context [?x =? ?y] => destruct (Z.eqb_spec x y)
  end.

Lemma in_slice_memb : forall s x, in_slice s x = memb (ivl_of s) x.
Proof. reflexivity. Qed.
Lemma in_target_memb : forall b j x, in_target b j x = memb (tgt b j) x.
Proof. reflexivity. Qed.

Lemma memb_empty : forall x, memb empty_ivl x = false.
Proof. intros x. unfold memb, empty_ivl. zb; cbn; try reflexivity; lia. Qed.

Lemma memb_inter : forall I J x, memb (inter I J) x = memb I x && memb J x.
Proof.
  intros [l1 [h1 c1]] [l2 [h2 c2]] x.
  unfold inter, memb, ub_min, ub_le. cbn [fst snd].
  destruct c1, c2; cbn [implb andb orb];
    destruct (Z.max_spec l1 l2) as [[? Hm]|[? Hm]]; rewrite Hm; clear Hm;
    zb; cbn; try reflexivity; try lia.
Qed.

Lemma iempty_sound : forall I x, iempty I = true -> memb I x = false.
Proof.
  intros [lo [h c]] x. unfold iempty, memb.
  destruct c; cbn [negb andb orb]; zb; cbn; intros; try reflexivity; try discriminate; try lia.
Qed.

Lemma ieq_sound : forall I J x, ieq I J = true -> memb I x = memb J x.
Proof.
  intros I J x H. unfold ieq in H. apply orb_true_iff in H. destruct H as [H|H].
  - apply andb_true_iff in H. destruct H as [H1 H2].
    rewrite (iempty_sound I x H1), (iempty_sound J x H2). reflexivity.
  - destruct I as [l1 [h1 c1]], J as [l2 [h2 c2]]. cbn [fst snd] in H.
    apply andb_true_iff in H. destruct H as [H H3].
    apply andb_true_iff in H. destruct H as [H1 H2].
    apply Z.eqb_eq in H1. apply Z.eqb_eq in H2. apply eqb_prop in H3. subst. reflexivity.
Qed.

Lemma ieq_inter_sound : forall H B A x,
  ieq (inter H A) (inter B A) = true -> memb A x = true -> memb H x = memb B x.
Proof.
  intros H B A x He HA. pose proof (ieq_sound _ _ x He) as E.
  rewrite !memb_inter, HA, !andb_true_r in E. exact E.
Qed.

(* ------------------------------------------------------------------------------------------ *)
(* list facts                                                                                  *)
(* ------------------------------------------------------------------------------------------ *)
Lemma filter_false : forall A (f : A -> bool) l, (forall x, In x l -> f x = false) -> filter f l = [].
Proof.
  induction l as [|x l IH]; intros H; [reflexivity|].
  cbn [filter]. rewrite (H x (or_introl eq_refl)). apply IH. intros y Hy. apply H. right. exact Hy.
Qed.

Lemma flat_map_ext_in : forall A B (f g : A -> list B) l,
  (forall x, In x l -> f x = g x) -> flat_map f l = flat_map g l.
Proof.
  induction l as [|x l IH]; intros H; [reflexivity|].
  cbn [flat_map]. rewrite (H x (or_introl eq_refl)). f_equal. apply IH. intros y Hy. apply H. right. exact Hy.
Qed.

Lemma flat_map_app' : forall A B (f : A -> list B) l1 l2,
  flat_map f (l1 ++ l2) = flat_map f l1 ++ flat_map f l2.
Proof.
  induction l1 as [|x l1 IH]; intros l2; [reflexivity|].
  cbn [app flat_map]. rewrite IH, app_assoc. reflexivity.
Qed.

Lemma flat_map_concat' : forall A B (f : A -> list B) L,
  flat_map f (concat L) = flat_map (flat_map f) L.
Proof.
  induction L as [|l L IH]; [reflexivity|].
  cbn [concat flat_map]. rewrite flat_map_app', IH. reflexivity.
Qed.

Lemma flat_map_map' : forall A B C (h : A -> B) (g : B -> list C) l,
  flat_map g (map h l) = flat_map (fun x => g (h x)) l.
Proof.
  induction l as [|x l IH]; [reflexivity|]. cbn [map flat_map]. rewrite IH. reflexivity.
Qed.

Lemma filter_flat_map : forall A B (f : B -> bool) (g : A -> list B) l,
  filter f (flat_map g l) = flat_map (fun x => filter f (g x)) l.
Proof.
  induction l as [|x l IH]; [reflexivity|]. cbn [flat_map]. rewrite filter_app, IH. reflexivity.
Qed.

Lemma concat_nth_seq : forall A (P : list (list A)),
  concat P = flat_map (fun i => nth i P []) (seq 0 (length P)).
Proof.
  intros A P. rewrite flat_map_concat_map. f_equal. symmetry. apply (map_nth_seq [] P).
Qed.

Lemma eqb_nats_sound : forall l1 l2, eqb_nats l1 l2 = true -> l1 = l2.
Proof.
  induction l1 as [|x l1 IH]; intros [|y l2] H; cbn [eqb_nats] in H; try discriminate; [reflexivity|].
  apply andb_true_iff in H. destruct H as [H1 H2]. apply Nat.eqb_eq in H1. subst. f_equal. apply IH, H2.
Qed.

Lemma sortedZ_head : forall l x, sortedZ (x :: l) -> forall y, In y l -> x <= y.
Proof.
  induction l as [|z l IH]; intros x Hs y Hy; [inversion Hy|].
  destruct Hs as [Hxz Hs]. destruct Hy as [<-|Hy]; [exact Hxz|].
  pose proof (IH z Hs y Hy). lia.
Qed.

Section Sound.
  Variable row : Type.
  Variable idx : row -> Z.

  (* on an index-sorted partition, slicing by two ordered disjoint ranges and concatenating is slicing by their union *)
  Lemma filter_app_sorted : forall (f1 f2 f12 : Z -> bool),
    (forall x y, f1 x = true -> f2 y = true -> x < y) ->
    (forall x, f12 x = f1 x || f2 x) ->
    forall p, sortedZ (map idx p) ->
    filter (fun r => f1 (idx r)) p ++ filter (fun r => f2 (idx r)) p = filter (fun r => f12 (idx r)) p.
  Proof.
    intros f1 f2 f12 Hord H12. induction p as [|r p IH]; intros Hs; [reflexivity|].
    cbn [map] in Hs. pose proof (sortedZ_head _ _ Hs) as Hhd.
    assert (Hs' : sortedZ (map idx p)) by (destruct Hs as [_ Hs']; exact Hs').
    specialize (IH Hs').
    cbn [filter]. rewrite (H12 (idx r)).
    destruct (f1 (idx r)) eqn:E1.
    - destruct (f2 (idx r)) eqn:E2.
      { exfalso. pose proof (Hord _ _ E1 E2). lia. }
      cbn [orb app]. f_equal. exact IH.
    - destruct (f2 (idx r)) eqn:E2; cbn [orb].
      + assert (Hnil : filter (fun r0 => f1 (idx r0)) p = []).
        { apply filter_false. intros y Hy. destruct (f1 (idx y)) eqn:E; [|reflexivity].
          exfalso. pose proof (Hord _ _ E E2) as Hlt.
          pose proof (Hhd (idx y) (in_map idx p y Hy)) as Hle. lia. }
        rewrite Hnil. cbn [app]. f_equal. rewrite <- IH, Hnil. reflexivity.
      + exact IH.
  Qed.

  Lemma hull_wf : forall r s, chain_ok (s :: r) = true ->
    fst (hull (s :: r)) = s_lo s /\ s_lo s <= fst (snd (hull (s :: r))).
  Proof.
    induction r as [|s2 r IH]; intros s H.
    - cbn [chain_ok] in H. cbn [hull ivl_of fst snd]. split; [reflexivity|].
      rewrite andb_true_r in H. apply Z.leb_le in H. exact H.
    - change (chain_ok (s :: s2 :: r)) with
        ((s_lo s <=? s_hi s) && (negb (s_closed s) && (s_hi s =? s_lo s2) && chain_ok (s2 :: r))) in H.
      apply andb_true_iff in H. destruct H as [H1 H]. apply andb_true_iff in H. destruct H as [H H4].
      apply andb_true_iff in H. destruct H as [H2 H3].
      apply Z.leb_le in H1. apply Z.eqb_eq in H3.
      destruct (IH s2 H4) as [_ IH2].
      change (hull (s :: s2 :: r)) with (s_lo s, snd (hull (s2 :: r))). cbn [fst snd].
      split; [reflexivity|lia].
  Qed.

  Lemma chain_sound : forall p, sortedZ (map idx p) ->
    forall ss, chain_ok ss = true ->
    flat_map (fun s => filter (fun r => in_slice s (idx r)) p) ss
    = filter (fun r => memb (hull ss) (idx r)) p.
  Proof.
    intros p Hs. induction ss as [|s r IH]; intros H.
    - cbn [flat_map hull]. symmetry. apply filter_false. intros x _. apply memb_empty.
    - destruct r as [|s2 r].
      + cbn [flat_map hull]. rewrite app_nil_r. reflexivity.
      + pose proof H as H0.
        change (chain_ok (s :: s2 :: r)) with
          ((s_lo s <=? s_hi s) && (negb (s_closed s) && (s_hi s =? s_lo s2) && chain_ok (s2 :: r))) in H.
        apply andb_true_iff in H. destruct H as [H1 H]. apply andb_true_iff in H. destruct H as [H H4].
        apply andb_true_iff in H. destruct H as [H2 H3].
        apply Z.leb_le in H1. apply Z.eqb_eq in H3. apply negb_true_iff in H2.
        destruct (hull_wf _ _ H4) as [W1 W2].
        change (flat_map (fun s0 => filter (fun r0 => in_slice s0 (idx r0)) p) (s :: s2 :: r))
          with (filter (fun r0 => in_slice s (idx r0)) p ++
                flat_map (fun s0 => filter (fun r0 => in_slice s0 (idx r0)) p) (s2 :: r)).
        rewrite (IH H4).
        change (hull (s :: s2 :: r)) with (s_lo s, snd (hull (s2 :: r))).
        destruct (hull (s2 :: r)) as [lo2 [h2 c2]] eqn:EH. cbn [fst snd] in W1, W2 |- *.
        apply (filter_app_sorted (in_slice s) (memb (lo2, (h2, c2))) (memb (s_lo s, (h2, c2)))); [| |exact Hs].
        * intros x y Hx Hy. unfold in_slice in Hx. rewrite H2 in Hx. unfold memb in Hy.
          cbn [andb] in Hx. rewrite orb_false_r in Hx.
          apply andb_true_iff in Hx. destruct Hx as [_ Hx]. apply Z.ltb_lt in Hx.
          apply andb_true_iff in Hy. destruct Hy as [Hy _]. apply Z.leb_le in Hy. lia.
        * intros x. unfold in_slice, memb. rewrite H2. cbn [andb]. rewrite orb_false_r.
          destruct c2; cbn [andb]; zb; cbn; try reflexivity; try lia.
  Qed.

  Lemma exec_slice_dslice : forall P, exec_slice idx P dslice = [].
  Proof.
    intros P. unfold exec_slice. apply filter_false. intros x _.
    rewrite in_slice_memb. apply memb_empty.
  Qed.

  Lemma exec_get : forall P sl k,
    match nth_error sl k with Some s => exec_slice idx P s | None => [] end = exec_slice idx P (getS sl k).
  Proof.
    intros P sl k. unfold getS. destruct (nth_error sl k) as [s|] eqn:E.
    - rewrite (nth_error_nth sl k dslice E). reflexivity.
    - apply nth_error_None in E. rewrite (nth_overflow sl dslice E). symmetry. apply exec_slice_dslice.
  Qed.

  Lemma exec_out_ks : forall P sl o,
    exec_out idx P sl o = flat_map (fun k => exec_slice idx P (getS sl k)) (ks_of o).
  Proof.
    intros P sl [|k|ks]; cbn [exec_out ks_of flat_map].
    - reflexivity.
    - rewrite app_nil_r. apply exec_get.
    - apply flat_map_ext_in. intros k _. apply exec_get.
  Qed.

  Lemma spec_out_decomp : forall b P j,
    spec_out idx b P j
    = flat_map (fun i => filter (fun r => memb (tgt b j) (idx r)) (nth i P [])) (seq 0 (length P)).
  Proof.
    intros b P j. unfold spec_out. rewrite (concat_nth_seq _ P) at 1. rewrite filter_flat_map. reflexivity.
  Qed.

  Lemma check_out_sound : forall a b sl j ks P,
    respects idx a P -> parts_sorted idx P ->
    check_out a b sl j ks = true ->
    flat_map (fun k => exec_slice idx P (getS sl k)) ks = spec_out idx b P j.
  Proof.
    intros a b sl j ks P [Hlen Hresp] Hsort Hc.
    unfold check_out in Hc. apply andb_true_iff in Hc. destruct Hc as [Hg Hall].
    apply eqb_nats_sound in Hg. rewrite forallb_forall in Hall.
    rewrite spec_out_decomp, Hlen.
    transitivity (flat_map (fun k => exec_slice idx P (getS sl k))
                           (concat (map (group sl ks) (seq 0 (length a - 1))))).
    { f_equal. symmetry. exact Hg. }
    rewrite flat_map_concat', flat_map_map'.
    apply flat_map_ext_in. intros i Hi.
    specialize (Hall i Hi). unfold check_src in Hall. apply andb_true_iff in Hall. destruct Hall as [Hch Heq].
    transitivity (flat_map (fun s => filter (fun r => in_slice s (idx r)) (nth i P []))
                           (map (getS sl) (group sl ks i))).
    { rewrite flat_map_map'. apply flat_map_ext_in. intros k Hk.
      unfold group in Hk. apply filter_In in Hk. destruct Hk as [_ Hk]. apply Nat.eqb_eq in Hk.
      unfold exec_slice. rewrite Hk. reflexivity. }
    assert (Hsi : sortedZ (map idx (nth i P []))).
    { apply in_seq in Hi. apply Hsort. apply nth_In. lia. }
    rewrite (chain_sound _ Hsi _ Hch).
    apply filter_ext_in. intros r Hr.
    apply ieq_inter_sound with (A := tgt a i); [exact Heq|].
    rewrite <- in_target_memb. apply Hresp. exact Hr.
  Qed.

  Theorem plan_ok_sound : forall (a b : list Z) (pl : plan) (P : list (list row)),
    valid_divs a = true -> valid_divs b = true ->
    plan_ok a b pl = true ->
    respects idx a P -> parts_sorted idx P ->
    exec_plan idx P pl = spec_plan idx b P.
  Proof.
    intros a b [sl outs] P _ _ Hok Hresp Hsort.
    unfold plan_ok in Hok. cbn [p_outs p_slices] in Hok.
    apply andb_true_iff in Hok. destruct Hok as [Hlen Hall]. apply Nat.eqb_eq in Hlen.
    rewrite forallb_forall in Hall.
    unfold exec_plan, spec_plan. cbn [p_outs p_slices].
    transitivity (map (exec_out idx P sl) (map (fun j => nth j outs ODummy) (seq 0 (length outs)))).
    { f_equal. symmetry. apply (map_nth_seq ODummy outs). }
    rewrite map_map, Hlen. apply map_ext_in. intros j Hj.
    rewrite exec_out_ks. apply (check_out_sound a b sl j _ P Hresp Hsort). apply Hall. exact Hj.
  Qed.
End Sound.


(* ------------------------------------------------------------------------------------------ *)
(* 2. bounded completeness: the checker accepts every plan the generator produces              *)
(* ------------------------------------------------------------------------------------------ *)
Fixpoint all_lists (vals : list Z) (len : nat) : list (list Z) :=
  match len with
  | O => [[]]
  | S n => flat_map (fun v => map (cons v) (all_lists vals n)) vals
  end.
(* all valid_divs vectors over 0..V-1 of length <= maxlen *)
Definition vecs (V maxlen : nat) : list (list Z) :=
  filter valid_divs (flat_map (all_lists (map Z.of_nat (seq 0 V))) (seq 0 (S maxlen))).

Lemma all_lists_complete : forall vals l, (forall x, In x l -> In x vals) -> In l (all_lists vals (length l)).
Proof.
  intros vals. induction l as [|x l IH]; intros H; [left; reflexivity|].
  cbn [length all_lists]. apply in_flat_map. exists x. split; [apply H; left; reflexivity|].
  apply in_map. apply IH. intros y Hy. apply H. right. exact Hy.
Qed.

(* vecs really enumerates the whole bounded domain *)
Lemma vecs_complete : forall V maxlen l,
  valid_divs l = true -> (length l <= maxlen)%nat -> (forall x, In x l -> 0 <= x < Z.of_nat V) ->
  In l (vecs V maxlen).
Proof.
  intros V maxlen l Hv Hl Hr. unfold vecs. apply filter_In. split; [|exact Hv].
  apply in_flat_map. exists (length l). split; [apply in_seq; lia|].
  apply all_lists_complete. intros x Hx. apply in_map_iff. exists (Z.to_nat x).
  specialize (Hr x Hx). split; [apply Z2Nat.id; lia|]. apply in_seq. lia.
Qed.

Example vecs_has_repeated_last : In [0; 2; 2] (vecs 8 7) /\ In [3; 3] (vecs 8 7) /\ In [0;1;2;3;4;5;7] (vecs 8 7).
Proof. repeat split; apply vecs_complete; try reflexivity; cbn [length]; try lia;
       intros x Hx; cbn [In] in Hx; cbn; lia. Qed.

(* the same statement with the enumeration shared (evaluated once) *)
Lemma plan_gen_ok_bounded_let :
  (let vs := vecs 8 7 in
   forallb (fun a => forallb (fun b => forallb (fun force =>
      if repart_validate a b force then
        match repart_plan a b force with Some pl => plan_ok a b pl | None => false end
      else true) [false; true]) vs) vs) = true.
Proof. vm_cast_no_check (eq_refl true). Qed.

(* 492 vectors, 2 * 492^2 = 484128 (a, b, force) triples *)
Theorem plan_gen_ok_bounded :
  forallb (fun a => forallb (fun b => forallb (fun force =>
     if repart_validate a b force then
       match repart_plan a b force with Some pl => plan_ok a b pl | None => false end
     else true) [false; true]) (vecs 8 7)) (vecs 8 7) = true.
Proof. exact plan_gen_ok_bounded_let. Qed.

(* unfolded to a statement about individual inputs *)
Corollary plan_gen_ok_bounded_forall : forall a b force,
  valid_divs a = true -> valid_divs b = true ->
  (length a <= 7)%nat -> (length b <= 7)%nat ->
  (forall x, In x a -> 0 <= x < 8) -> (forall x, In x b -> 0 <= x < 8) ->
  repart_validate a b force = true ->
  exists pl, repart_plan a b force = Some pl /\ plan_ok a b pl = true.
Proof.
  intros a b force Hva Hvb Hla Hlb Hra Hrb Hval.
  pose proof plan_gen_ok_bounded as H. rewrite forallb_forall in H.
  specialize (H a (vecs_complete 8 7 a Hva Hla Hra)). rewrite forallb_forall in H.
  specialize (H b (vecs_complete 8 7 b Hvb Hlb Hrb)). rewrite forallb_forall in H.
  assert (Hf : In force [false; true]) by (destruct force; cbn; auto).
  specialize (H force Hf). rewrite Hval in H.
  destruct (repart_plan a b force) as [pl|]; [|discriminate]. exists pl. split; [reflexivity|exact H].
Qed.

(* every generated plan in the bounded domain is correct on all data *)
Corollary repart_plan_correct_bounded : forall (row : Type) (idx : row -> Z) a b force pl (P : list (list row)),
  valid_divs a = true -> valid_divs b = true ->
  (length a <= 7)%nat -> (length b <= 7)%nat ->
  (forall x, In x a -> 0 <= x < 8) -> (forall x, In x b -> 0 <= x < 8) ->
  repart_plan a b force = Some pl ->
  respects idx a P -> parts_sorted idx P ->
  exec_plan idx P pl = spec_plan idx b P.
Proof.
  intros row idx a b force pl P Hva Hvb Hla Hlb Hra Hrb Hpl Hresp Hsort.
  assert (Hval : repart_validate a b force = true).
  { unfold repart_plan in Hpl. destruct (repart_validate a b force); [reflexivity|discriminate]. }
  destruct (plan_gen_ok_bounded_forall a b force Hva Hvb Hla Hlb Hra Hrb Hval) as [pl' [E Hok]].
  rewrite Hpl in E. injection E as <-.
  apply (plan_ok_sound row idx a b pl P Hva Hvb Hok Hresp Hsort).
Qed.

(* ------------------------------------------------------------------------------------------ *)
(* non-vacuity                                                                                 *)
(* ------------------------------------------------------------------------------------------ *)
Section Examples.
  (* rows are (index, payload) *)
  Let row := (Z * nat)%type.
  Let idx : row -> Z := fst.
  Let a := [0; 2; 2].
  Let b := [0; 1; 2; 2].
  Let P : list (list row) := [[(0, 10%nat); (1, 11%nat); (1, 12%nat)]; [(2, 13%nat); (2, 14%nat)]].
  Let pl := {| p_slices :=
             [{| s_src := 0; s_lo := 0; s_hi := 1; s_closed := false |};
              {| s_src := 0; s_lo := 1; s_hi := 2; s_closed := false |};
              {| s_src := 1; s_lo := 2; s_hi := 2; s_closed := false |};
              {| s_src := 1; s_lo := 2; s_hi := 2; s_closed := true |}];
           p_outs := [OAlias 0; OAlias 1; OConcat [2%nat; 3%nat]] |}.

  Example ex_valid : valid_divs a = true /\ valid_divs b = true.
  Proof. split; reflexivity. Qed.
  Example ex_plan : repart_plan a b false = Some pl.
  Proof. reflexivity. Qed.
  Example ex_ok : plan_ok a b pl = true.
  Proof. reflexivity. Qed.
  Example ex_respects : respects idx a P.
  Proof.
    split; [reflexivity|]. intros i r H.
    destruct i as [|[|i]]; cbn in H.
    - destruct H as [<-|[<-|[<-|[]]]]; reflexivity.
    - destruct H as [<-|[<-|[]]]; reflexivity.
    - destruct i; contradiction.
  Qed.
  Example ex_sorted : parts_sorted idx P.
  Proof. intros p [<-|[<-|[]]]; cbn; lia. Qed.
  Example ex_conclusion : exec_plan idx P pl = spec_plan idx b P.
  Proof.
    apply (plan_ok_sound row idx a b pl P); [reflexivity|reflexivity|exact ex_ok|exact ex_respects|exact ex_sorted].
  Qed.
  Example ex_value : exec_plan idx P pl = [[(0, 10%nat)]; [(1, 11%nat); (1, 12%nat)]; [(2, 13%nat); (2, 14%nat)]].
  Proof. reflexivity. Qed.

  (* the checker is not trivially true: dropping a slice, swapping outputs, or a wrong source is rejected *)
  Example ex_reject_missing :
    plan_ok a b {| p_slices := p_slices pl; p_outs := [OAlias 0; OAlias 1; OAlias 2] |} = false.
  Proof. reflexivity. Qed.
  Example ex_reject_order :
    plan_ok a b {| p_slices := p_slices pl; p_outs := [OAlias 1; OAlias 0; OConcat [2%nat; 3%nat]] |} = false.
  Proof. reflexivity. Qed.
  Example ex_reject_src :
    plan_ok [0; 2; 4] [0; 4]
      {| p_slices := [{| s_src := 0; s_lo := 0; s_hi := 2; s_closed := false |};
                      {| s_src := 0; s_lo := 2; s_hi := 4; s_closed := true |}];
         p_outs := [OConcat [0%nat; 1%nat]] |} = false.
  Proof. reflexivity. Qed.
  (* forced widening of a single-value input (the D15 shape) is accepted for this model *)
  Example ex_force_single :
    match repart_plan [2; 2] [0; 1; 2; 2] true with Some pl => plan_ok [2; 2] [0; 1; 2; 2] pl | None => false end = true.
  Proof. reflexivity. Qed.
End Examples.

(* ------------------------------------------------------------------------------------------ *)
(* 3. unbounded generator theorem: strictly increasing a, b with equal end points, no force     *)
(*    phase 1 invariant (Inv) -> Shape of (c, d) -> phase 2 collects the runs between the       *)
(*    positions of consecutive b-values -> every run passes check_out                          *)
(* ------------------------------------------------------------------------------------------ *)
(* ---------- generic helpers ---------- *)
Section Mono.
  Variable f : nat -> Z.
  Variable k : nat.
  Hypothesis Hadj : forall t, (t < k)%nat -> f t < f (S t).
  Lemma mono_lt : forall t' t, (t < t')%nat -> (t' <= k)%nat -> f t < f t'.
  Proof.
    induction t' as [|t' IH]; intros t Hlt Hle; [lia|].
    destruct (Nat.eq_dec t t') as [->|Hne]; [apply Hadj; lia|].
    pose proof (IH t ltac:(lia) ltac:(lia)). pose proof (Hadj t' ltac:(lia)). lia.
  Qed.
  Lemma mono_le : forall t t', (t <= t')%nat -> (t' <= k)%nat -> f t <= f t'.
  Proof.
    intros t t' Hle Hk. destruct (Nat.eq_dec t t') as [->|Hne]; [lia|].
    pose proof (mono_lt t' t ltac:(lia) Hk). lia.
  Qed.
  Lemma mono_inv_lt : forall t t', (t <= k)%nat -> (t' <= k)%nat -> f t < f t' -> (t < t')%nat.
  Proof.
    intros t t' Hk Hk' Hlt. destruct (le_lt_dec t' t) as [Hle|Hgt]; [|exact Hgt].
    pose proof (mono_le t' t Hle Hk). lia.
  Qed.
  Lemma mono_inv_le : forall t t', (t <= k)%nat -> (t' <= k)%nat -> f t <= f t' -> (t <= t')%nat.
  Proof.
    intros t t' Hk Hk' Hlt. destruct (le_lt_dec t t') as [Hle|Hgt]; [exact Hle|].
    pose proof (mono_lt t t' Hgt Hk). lia.
  Qed.
  Lemma mono_inj : forall t t', (t <= k)%nat -> (t' <= k)%nat -> f t = f t' -> t = t'.
  Proof.
    intros t t' Hk Hk' He.
    pose proof (mono_inv_le t t' Hk Hk' ltac:(lia)). pose proof (mono_inv_le t' t Hk' Hk ltac:(lia)). lia.
  Qed.
End Mono.

Lemma strict_adj : forall l t, strict_incr l = true -> (S t < length l)%nat -> nthZ l t < nthZ l (S t).
Proof.
  induction l as [|x l IH]; intros t Hs Hl; [cbn in Hl; lia|].
  cbn [strict_incr] in Hs. apply andb_true_iff in Hs. destruct Hs as [H1 H2].
  destruct t as [|t].
  - destruct l as [|y l]; [cbn in Hl; lia|]. apply Z.ltb_lt in H1. exact H1.
  - cbn [length] in Hl. apply (IH t H2). lia.
Qed.

Lemma strict_adj' : forall l, strict_incr l = true ->
  forall t, (t < length l - 1)%nat -> nthZ l t < nthZ l (S t).
Proof. intros l Hs t Ht. apply strict_adj; [exact Hs|lia]. Qed.

Lemma lastZ_nth : forall l, lastZ l = nthZ l (length l - 1).
Proof.
  unfold lastZ, nthZ. induction l as [|x l IH]; [reflexivity|].
  destruct l as [|y l]; [reflexivity|].
  change (last (x :: y :: l) 0) with (last (y :: l) 0). rewrite IH.
  cbn [length]. replace (S (S (length l)) - 1)%nat with (S (length l - 0)) by lia.
  cbn [nth]. replace (S (length l) - 1)%nat with (length l - 0)%nat by lia. reflexivity.
Qed.

Lemma nthZ_app1 : forall l r t, (t < length l)%nat -> nthZ (l ++ r) t = nthZ l t.
Proof. intros. unfold nthZ. apply app_nth1. assumption. Qed.
Lemma nthZ_snoc : forall l x, nthZ (l ++ [x]) (length l) = x.
Proof. intros. unfold nthZ. rewrite app_nth2 by lia. rewrite Nat.sub_diag. reflexivity. Qed.

(* ---------- phase 1 ---------- *)
Definition slice_ok (a c : list Z) (t : nat) (s : slice) : Prop :=
  s_lo s = nthZ c t /\ s_hi s = nthZ c (S t) /\ s_closed s = false /\
  (S (s_src s) < length a)%nat /\ nthZ a (s_src s) <= nthZ c t /\ nthZ c (S t) <= nthZ a (S (s_src s)).

Record Inv (a b : list Z) (s : st1) : Prop := {
  inv_i : (1 <= i1 s <= length a)%nat;
  inv_j : (1 <= j1 s <= length b)%nat;
  inv_len : length (c1 s) = S (length (d1 s));
  inv_low : low1 s = nthZ (c1 s) (length (d1 s));
  inv_lowa : nthZ a (i1 s - 1) <= low1 s;
  inv_lowb : nthZ b (j1 s - 1) <= low1 s;
  inv_lowab : low1 s = nthZ a (i1 s - 1) \/ low1 s = nthZ b (j1 s - 1);
  inv_nexta : (i1 s < length a)%nat -> low1 s < nthZ a (i1 s);
  inv_nextb : (j1 s < length b)%nat -> low1 s < nthZ b (j1 s);
  inv_cmono : forall t, (t < length (d1 s))%nat -> nthZ (c1 s) t < nthZ (c1 s) (S t);
  inv_sl : forall t, (t < length (d1 s))%nat -> slice_ok a (c1 s) t (nth t (d1 s) dslice);
  inv_ina : forall i', (i' < i1 s)%nat -> exists t, (t <= length (d1 s))%nat /\ nthZ (c1 s) t = nthZ a i';
  inv_inb : forall j', (j' < j1 s)%nat -> exists t, (t <= length (d1 s))%nat /\ nthZ (c1 s) t = nthZ b j' }.

Lemma inv_step_gen : forall a b s i' j' x src,
  Inv a b s ->
  (i1 s <= i' <= length a)%nat -> (j1 s <= j' <= length b)%nat ->
  low1 s < x ->
  nthZ a (i' - 1) <= x -> nthZ b (j' - 1) <= x -> (x = nthZ a (i' - 1) \/ x = nthZ b (j' - 1)) ->
  ((i' < length a)%nat -> x < nthZ a i') -> ((j' < length b)%nat -> x < nthZ b j') ->
  (S src < length a)%nat -> nthZ a src <= low1 s -> x <= nthZ a (S src) ->
  (forall i'', (i1 s <= i'' < i')%nat -> nthZ a i'' = x) ->
  (forall j'', (j1 s <= j'' < j')%nat -> nthZ b j'' = x) ->
  Inv a b {| i1 := i'; j1 := j'; low1 := x; c1 := c1 s ++ [x];
             d1 := d1 s ++ [{| s_src := src; s_lo := low1 s; s_hi := x; s_closed := false |}] |}.
Proof.
  intros a b s i' j' x src I Hi Hj Hlx Hxa Hxb Hxab Hna Hnb Hsrc Hsa Hsx Hia Hjb.
  destruct I as [Ii Ij Ilen Ilow Ilowa Ilowb Ilowab Inexta Inextb Icm Isl Iina Iinb].
  constructor; cbn [i1 j1 low1 c1 d1]; try assumption; try lia.
  - rewrite !app_length. cbn [length]. lia.
  - rewrite app_length. cbn [length]. replace (length (d1 s) + 1)%nat with (length (c1 s)) by lia.
    symmetry. apply nthZ_snoc.
  - intros t Ht. rewrite app_length in Ht. cbn [length] in Ht.
    destruct (Nat.eq_dec t (length (d1 s))) as [->|Hne].
    + rewrite nthZ_app1 by lia. rewrite <- Ilow. rewrite <- Ilen, nthZ_snoc. exact Hlx.
    + rewrite !nthZ_app1 by lia. apply Icm. lia.
  - intros t Ht. rewrite app_length in Ht. cbn [length] in Ht.
    destruct (Nat.eq_dec t (length (d1 s))) as [->|Hne].
    + rewrite app_nth2 by lia. rewrite Nat.sub_diag. cbn [nth].
      unfold slice_ok. cbn [s_lo s_hi s_closed s_src].
      rewrite nthZ_app1 by lia. rewrite <- Ilow, <- Ilen, nthZ_snoc.
      repeat split; try assumption; try lia.
    + rewrite app_nth1 by lia. specialize (Isl t ltac:(lia)).
      unfold slice_ok in *. rewrite !nthZ_app1 by lia. exact Isl.
  - intros i'' Hi''. destruct (le_lt_dec (i1 s) i'') as [Hge|Hlt].
    + exists (S (length (d1 s))). split; [rewrite app_length; cbn [length]; lia|].
      rewrite <- Ilen, nthZ_snoc. symmetry. apply Hia. lia.
    + destruct (Iina i'' Hlt) as [t [Ht Et]]. exists t. split; [rewrite app_length; lia|].
      rewrite nthZ_app1 by lia. exact Et.
  - intros j'' Hj''. destruct (le_lt_dec (j1 s) j'') as [Hge|Hlt].
    + exists (S (length (d1 s))). split; [rewrite app_length; cbn [length]; lia|].
      rewrite <- Ilen, nthZ_snoc. symmetry. apply Hjb. lia.
    + destruct (Iinb j'' Hlt) as [t [Ht Et]]. exists t. split; [rewrite app_length; lia|].
      rewrite nthZ_app1 by lia. exact Et.
Qed.

Definition step1 (a b : list Z) (s : st1) : st1 :=
  let i := i1 s in let j := j1 s in
  let ai := nthZ a i in let bj := nthZ b j in
          if ai <? bj then
            {| i1 := S i; j1 := j; low1 := ai; c1 := c1 s ++ [ai];
               d1 := d1 s ++ [{| s_src := i - 1; s_lo := low1 s; s_hi := ai; s_closed := false |}] |}
          else if ai >? bj then
            {| i1 := i; j1 := S j; low1 := bj; c1 := c1 s ++ [bj];
               d1 := d1 s ++ [{| s_src := i - 1; s_lo := low1 s; s_hi := bj; s_closed := false |}] |}
          else
            {| i1 := S i;
               j1 := if ((length a =? i + 1)%nat || (ai <? nthZ a (i + 1)))%bool then S j else j;
               low1 := bj; c1 := c1 s ++ [bj];
               d1 := d1 s ++ [{| s_src := i - 1; s_lo := low1 s; s_hi := bj; s_closed := false |}] |}.

Lemma phase1_unfold : forall f a b s,
  phase1 (S f) a b s =
  if ((i1 s <? length a)%nat && (j1 s <? length b)%nat)%bool then phase1 f a b (step1 a b s) else s.
Proof. reflexivity. Qed.

Lemma inv_step : forall a b s,
  strict_incr a = true -> strict_incr b = true ->
  Inv a b s -> (i1 s < length a)%nat -> (j1 s < length b)%nat ->
  Inv a b (step1 a b s) /\
  (i1 s <= i1 (step1 a b s))%nat /\ (j1 s <= j1 (step1 a b s))%nat /\
  (i1 s + j1 s < i1 (step1 a b s) + j1 (step1 a b s))%nat.
Proof.
  intros a b s Ha Hb I Hi Hj. pose proof I as I0.
  destruct I as [Ii Ij Ilen Ilow Ilowa Ilowb Ilowab Inexta Inextb Icm Isl Iina Iinb].
  specialize (Inexta Hi). specialize (Inextb Hj).
  assert (Hsrc : S (i1 s - 1) = i1 s) by lia.
  assert (Han : (S (i1 s) < length a)%nat -> nthZ a (i1 s) < nthZ a (S (i1 s))) by (apply strict_adj; exact Ha).
  assert (Hbn : (S (j1 s) < length b)%nat -> nthZ b (j1 s) < nthZ b (S (j1 s))) by (apply strict_adj; exact Hb).
  unfold step1.
  destruct (Z.ltb_spec (nthZ a (i1 s)) (nthZ b (j1 s))) as [Hlt|Hge].
  - split; [|cbn [i1 j1]; lia].
    apply inv_step_gen; try assumption; try lia;
      rewrite ?Hsrc; replace (S (i1 s) - 1)%nat with (i1 s) by lia; try lia.
    + intros i'' Hi''. replace i'' with (i1 s) by lia. reflexivity.
  - destruct (Z.gtb_spec (nthZ a (i1 s)) (nthZ b (j1 s))) as [Hgt|Hle].
    + split; [|cbn [i1 j1]; lia].
      apply inv_step_gen; try assumption; try lia;
        rewrite ?Hsrc; replace (S (j1 s) - 1)%nat with (j1 s) by lia; try lia.
      * intros j'' Hj''. replace j'' with (j1 s) by lia. reflexivity.
    + assert (Heq : nthZ a (i1 s) = nthZ b (j1 s)) by lia.
      assert (Hc : ((length a =? i1 s + 1)%nat || (nthZ a (i1 s) <? nthZ a (i1 s + 1)))%bool = true).
      { destruct (Nat.eqb_spec (length a) (i1 s + 1)) as [E|NE]; [reflexivity|].
        cbn [orb]. apply Z.ltb_lt. replace (i1 s + 1)%nat with (S (i1 s)) by lia. apply Han. lia. }
      rewrite Hc. split; [|cbn [i1 j1]; lia].
      apply inv_step_gen; try assumption; try lia;
        rewrite ?Hsrc; replace (S (i1 s) - 1)%nat with (i1 s) by lia;
        replace (S (j1 s) - 1)%nat with (j1 s) by lia; try lia.
      * intros i'' Hi''. replace i'' with (i1 s) by lia. lia.
      * intros j'' Hj''. replace j'' with (j1 s) by lia. reflexivity.
Qed.

Lemma phase1_inv : forall a b, strict_incr a = true -> strict_incr b = true ->
  forall fuel s, Inv a b s -> (length a - i1 s + (length b - j1 s) <= fuel)%nat ->
  Inv a b (phase1 fuel a b s) /\
  ~ ((i1 (phase1 fuel a b s) < length a)%nat /\ (j1 (phase1 fuel a b s) < length b)%nat).
Proof.
  intros a b Ha Hb. induction fuel as [|f IH]; intros s I Hm.
  - cbn [phase1]. split; [exact I|]. lia.
  - rewrite phase1_unfold.
    destruct (Nat.ltb_spec (i1 s) (length a)) as [Hi|Hi]; cbn [andb].
    + destruct (Nat.ltb_spec (j1 s) (length b)) as [Hj|Hj].
      * destruct (inv_step a b s Ha Hb I Hi Hj) as [I' [Hi' [Hj' Hs]]].
        apply IH; [exact I'|].
        pose proof (inv_i _ _ _ I'). pose proof (inv_j _ _ _ I'). lia.
      * split; [exact I|lia].
    + split; [exact I|lia].
Qed.

(* ---------- the shape of (c, d) after phase 1 and the tail ---------- *)
Record Shape (a b c : list Z) (d : list slice) (k : nat) : Prop := {
  sh_klen : length d = k;
  sh_kpos : (1 <= k)%nat;
  sh_clen : length c = S (S k);
  sh_cmono : forall t, (t < k)%nat -> nthZ c t < nthZ c (S t);
  sh_ck : nthZ c k = lastZ a;
  sh_ck1 : nthZ c (S k) = lastZ a;
  sh_sl : forall t, (t < k)%nat -> slice_ok a c t (nth t d dslice);
  sh_ina : forall i, (i < length a)%nat -> exists t, (t <= k)%nat /\ nthZ c t = nthZ a i;
  sh_inb : forall j, (j < length b)%nat -> exists t, (t <= k)%nat /\ nthZ c t = nthZ b j }.

Section Gen.
  Variables a b : list Z.
  Hypothesis Ha : strict_incr a = true.
  Hypothesis Hb : strict_incr b = true.
  Hypothesis Hla : (2 <= length a)%nat.
  Hypothesis Hlb : (2 <= length b)%nat.
  Hypothesis H0 : nthZ a 0 = nthZ b 0.
  Hypothesis HL : lastZ a = lastZ b.

  Let n := (length a - 1)%nat.
  Let m := (length b - 1)%nat.
  Let L := lastZ a.

  Lemma La : L = nthZ a n. Proof. apply lastZ_nth. Qed.
  Lemma Lb : L = nthZ b m. Proof. unfold L. rewrite HL. apply lastZ_nth. Qed.

  Definition s0 : st1 :=
    let low0 := Z.min (nthZ a 0) (nthZ b 0) in {| i1 := 1; j1 := 1; low1 := low0; c1 := [low0]; d1 := [] |}.
  Definition sF : st1 := phase1 (length a + length b) a b s0.

  Lemma inv_s0 : Inv a b s0.
  Proof.
    unfold s0. rewrite <- H0, Z.min_id.
    constructor; cbn [i1 j1 low1 c1 d1 length]; try lia; try reflexivity.
    - rewrite H0. cbn. lia.
    - left. reflexivity.
    - intros _. apply strict_adj; [exact Ha|lia].
    - intros _. rewrite H0. apply strict_adj; [exact Hb|lia].
    - intros i' Hi'. exists 0%nat. split; [lia|]. replace i' with 0%nat by lia. reflexivity.
    - intros j' Hj'. exists 0%nat. split; [lia|]. replace j' with 0%nat by lia. cbn. exact H0.
  Qed.

  Lemma sF_facts :
    Inv a b sF /\ i1 sF = length a /\ j1 sF = length b /\ low1 sF = L.
  Proof.
    destruct (phase1_inv a b Ha Hb (length a + length b) s0 inv_s0) as [I Hstop].
    { cbn [s0 i1 j1]. lia. }
    fold sF in I, Hstop. split; [exact I|].
    pose proof (inv_i _ _ _ I) as Ii. pose proof (inv_j _ _ _ I) as Ij.
    pose proof (inv_lowa _ _ _ I) as Ilowa. pose proof (inv_lowb _ _ _ I) as Ilowb.
    pose proof (inv_nexta _ _ _ I) as Ina. pose proof (inv_nextb _ _ _ I) as Inb.
    pose proof (mono_le (nthZ a) n (strict_adj' a Ha)) as Ma.
    pose proof (mono_le (nthZ b) m (strict_adj' b Hb)) as Mb.
    pose proof La as ELa. pose proof Lb as ELb.
    assert (Hij : i1 sF = length a /\ j1 sF = length b).
    { destruct (le_lt_dec (length a) (i1 sF)) as [Hi|Hi].
      - split; [lia|]. destruct (le_lt_dec (length b) (j1 sF)) as [Hj|Hj]; [lia|].
        specialize (Inb Hj). specialize (Mb (j1 sF) m ltac:(unfold m; lia) ltac:(lia)).
        replace (i1 sF - 1)%nat with n in Ilowa by (unfold n; lia). lia.
      - destruct (le_lt_dec (length b) (j1 sF)) as [Hj|Hj]; [|exfalso; apply Hstop; split; assumption].
        specialize (Ina Hi). specialize (Ma (i1 sF) n ltac:(unfold n; lia) ltac:(lia)).
        replace (j1 sF - 1)%nat with m in Ilowb by (unfold m; lia). lia. }
    destruct Hij as [Ei Ej]. split; [exact Ei|]. split; [exact Ej|].
    destruct (inv_lowab _ _ _ I) as [E|E]; rewrite E.
    - rewrite Ei. symmetry. exact ELa.
    - rewrite Ej. symmetry. exact ELb.
  Qed.

  Definition cF : list Z := c1 sF ++ [L].
  Definition dF : list slice := d1 sF.
  Definition kF : nat := length dF.

  Lemma shapeF : Shape a b cF dF kF.
  Proof.
    destruct sF_facts as [I [Ei [Ej El]]].
    pose proof (inv_len _ _ _ I) as Ilen. fold dF in Ilen. fold kF in Ilen.
    pose proof (inv_low _ _ _ I) as Ilow. fold dF in Ilow. fold kF in Ilow. rewrite El in Ilow.
    assert (Hk : (1 <= kF)%nat).
    { destruct (inv_ina _ _ _ I 0%nat ltac:(lia)) as [t0 [Ht0 E0]].
      destruct (inv_ina _ _ _ I n ltac:(unfold n; lia)) as [t1 [Ht1 E1]].
      fold dF in Ht0, Ht1. fold kF in Ht0, Ht1.
      pose proof (mono_lt (nthZ a) n (strict_adj' a Ha) n 0%nat ltac:(unfold n; lia) ltac:(lia)).
      destruct (Nat.eq_dec kF 0) as [E|NE]; [|lia].
      replace t0 with 0%nat in E0 by lia. replace t1 with 0%nat in E1 by lia. lia. }
    constructor.
    - reflexivity.
    - exact Hk.
    - unfold cF. rewrite app_length. cbn [length]. lia.
    - intros t Ht. unfold cF. rewrite !nthZ_app1 by lia. apply (inv_cmono _ _ _ I). exact Ht.
    - unfold cF. rewrite nthZ_app1 by lia. symmetry. exact Ilow.
    - unfold cF. rewrite <- Ilen. apply nthZ_snoc.
    - intros t Ht. pose proof (inv_sl _ _ _ I t Ht) as Sl. unfold slice_ok in *. unfold cF.
      rewrite !nthZ_app1 by lia. exact Sl.
    - intros i Hi. destruct (inv_ina _ _ _ I i ltac:(lia)) as [t [Ht E]]. exists t.
      split; [exact Ht|]. unfold cF. rewrite nthZ_app1 by (fold dF in Ht; fold kF in Ht; lia). exact E.
    - intros j Hj. destruct (inv_inb _ _ _ I j ltac:(lia)) as [t [Ht E]]. exists t.
      split; [exact Ht|]. unfold cF. rewrite nthZ_app1 by (fold dF in Ht; fold kF in Ht; lia). exact E.
  Qed.

  Lemma repart_plan_unfold :
    repart_plan a b false =
    match phase2 cF b true kF (seq 1 (length b - 1)) 0 [] with
    | None => None
    | Some outs => Some {| p_slices := close_last dF; p_outs := outs |}
    end.
  Proof.
    pose proof shapeF as Sh.
    unfold repart_plan.
    assert (Hv : repart_validate a b false = true).
    { unfold repart_validate. rewrite H0, HL, !Z.eqb_refl.
      destruct (Nat.leb_spec 2 (length b)); [reflexivity|lia]. }
    rewrite Hv. cbn [negb]. fold s0. fold sF.
    assert (C1 : ((lastZ a <? lastZ b) || (lastZ b =? nthZ b (length b - 2)))%bool = false).
    { rewrite <- HL. rewrite Z.ltb_irrefl. cbn [orb]. apply Z.eqb_neq.
      fold L. rewrite Lb.
      pose proof (strict_adj b (length b - 2) Hb ltac:(lia)) as Hlt.
      replace (S (length b - 2))%nat with m in Hlt by (unfold m; lia). lia. }
    rewrite C1.
    assert (C2 : single_last a = false).
    { unfold single_last. apply andb_false_iff. right. apply Z.eqb_neq.
      pose proof (strict_adj a (length a - 2) Ha ltac:(lia)) as Hlt.
      replace (S (length a - 2))%nat with (length a - 1)%nat in Hlt by lia. lia. }
    rewrite C2. cbn [andb]. fold L. fold cF. fold dF. fold kF.
    assert (C3 : single_last cF = true).
    { unfold single_last. rewrite (sh_clen _ _ _ _ _ Sh).
      replace (S (S kF) - 1)%nat with (S kF) by lia. replace (S (S kF) - 2)%nat with kF by lia.
      rewrite (sh_ck _ _ _ _ _ Sh), (sh_ck1 _ _ _ _ _ Sh), Z.eqb_refl. reflexivity. }
    rewrite C3.
    pose proof (sh_kpos _ _ _ _ _ Sh) as Hk.
    destruct kF as [|k'] eqn:Ek; [lia|]. reflexivity.
  Qed.
End Gen.

(* ---------- phase 2 ---------- *)
Lemma nth_error_nthZ : forall c i, (i < length c)%nat -> nth_error c i = Some (nthZ c i).
Proof. intros c i H. unfold nthZ. apply nth_error_nth'. exact H. Qed.

Lemma collect_lt_spec : forall fuel c bj i q tmp,
  (forall t, (i <= t < q)%nat -> nthZ c t < bj) -> (q < length c)%nat -> ~ (nthZ c q < bj) ->
  (i <= q)%nat -> (q - i < fuel)%nat ->
  collect_lt fuel c bj i tmp = Some (q, tmp ++ seq i (q - i)).
Proof.
  induction fuel as [|f IH]; intros c bj i q tmp Hlt Hq Hnq Hiq Hf; [lia|].
  cbn [collect_lt]. rewrite (nth_error_nthZ c i) by lia.
  destruct (Nat.eq_dec i q) as [->|Hne].
  - destruct (Z.ltb_spec (nthZ c q) bj) as [Hc|Hc]; [contradiction|].
    rewrite Nat.sub_diag. cbn [seq]. rewrite app_nil_r. reflexivity.
  - destruct (Z.ltb_spec (nthZ c i) bj) as [Hc|Hc].
    + rewrite (IH c bj (S i) q (tmp ++ [i])); try assumption; try lia.
      * replace (q - i)%nat with (S (q - S i)) by lia. cbn [seq]. rewrite <- app_assoc. reflexivity.
      * intros t Ht. apply Hlt. lia.
    + specialize (Hlt i ltac:(lia)). lia.
Qed.

Lemma ks_of_match : forall tmp : list nat,
  ks_of (match tmp with [] => ODummy | [x] => OAlias x | _ => OConcat tmp end) = tmp.
Proof. intros [|x [|y r]]; reflexivity. Qed.

Section Phase2.
  Variables a b c : list Z.
  Variable d : list slice.
  Variable k : nat.
  Hypothesis Hb : strict_incr b = true.
  Hypothesis Hlb : (2 <= length b)%nat.
  Hypothesis HL : lastZ a = lastZ b.
  Hypothesis Sh : Shape a b c d k.

  Let m := (length b - 1)%nat.

  Lemma c_lt : forall t t', (t < t')%nat -> (t' <= k)%nat -> nthZ c t < nthZ c t'.
  Proof. intros t t'. apply (mono_lt (nthZ c) k (sh_cmono _ _ _ _ _ Sh) t' t). Qed.
  Lemma c_inv_lt : forall t t', (t <= k)%nat -> (t' <= k)%nat -> nthZ c t < nthZ c t' -> (t < t')%nat.
  Proof. apply mono_inv_lt. apply (sh_cmono _ _ _ _ _ Sh). Qed.
  Lemma c_inv_le : forall t t', (t <= k)%nat -> (t' <= k)%nat -> nthZ c t <= nthZ c t' -> (t <= t')%nat.
  Proof. apply mono_inv_le. apply (sh_cmono _ _ _ _ _ Sh). Qed.
  Lemma c_inj : forall t t', (t <= k)%nat -> (t' <= k)%nat -> nthZ c t = nthZ c t' -> t = t'.
  Proof. apply mono_inj. apply (sh_cmono _ _ _ _ _ Sh). Qed.
  Lemma b_lt : forall j j', (j < j')%nat -> (j' <= m)%nat -> nthZ b j < nthZ b j'.
  Proof. intros j j'. apply (mono_lt (nthZ b) m (strict_adj' b Hb) j' j). Qed.

  Lemma collect_last_stop : forall q j tmp, (q <= k)%nat -> (1 <= j <= m)%nat -> nthZ c q = nthZ b j ->
    collect_last (S (length c)) c b true (j =? length b - 1)%nat k q tmp = Some (q, tmp).
  Proof.
    intros q j tmp Hq Hj E. cbn [collect_last].
    rewrite (nth_error_nthZ c q) by (rewrite (sh_clen _ _ _ _ _ Sh); lia).
    assert (C : ((nthZ c q =? lastZ b) && (negb (lastZ b =? nthZ b (length b - 2)) || (j =? length b - 1)%nat)
                 && (q <? k)%nat)%bool = false).
    { destruct (Z.eqb_spec (nthZ c q) (lastZ b)) as [E1|NE]; [|reflexivity].
      cbn [andb]. apply andb_false_iff. right. apply Nat.ltb_ge.
      rewrite <- HL, <- (sh_ck _ _ _ _ _ Sh) in E1.
      rewrite (c_inj q k Hq ltac:(lia) E1). lia. }
    rewrite C. reflexivity.
  Qed.

  Lemma phase2_spec : forall r j0 p outs,
    (1 <= j0)%nat -> (j0 + r = S m)%nat -> (p <= k)%nat -> nthZ c p = nthZ b (j0 - 1) ->
    exists outs', phase2 c b true k (seq j0 r) p outs = Some (outs ++ outs') /\ length outs' = r /\
      forall u, (u < r)%nat -> exists p' q', (p' <= q')%nat /\ (q' <= k)%nat /\
        nthZ c p' = nthZ b (j0 - 1 + u) /\ nthZ c q' = nthZ b (j0 + u) /\
        ks_of (nth u outs' ODummy) = seq p' (q' - p').
  Proof.
    induction r as [|r IH]; intros j0 p outs Hj0 Hr Hp Ep.
    - exists []. cbn [seq phase2]. rewrite app_nil_r. split; [reflexivity|]. split; [reflexivity|]. intros u Hu. lia.
    - cbn [seq phase2].
      destruct (sh_inb _ _ _ _ _ Sh j0 ltac:(unfold m in Hr; lia)) as [q [Hq Eq]].
      assert (Hbb : nthZ b (j0 - 1) < nthZ b j0) by (apply b_lt; lia).
      assert (Hpq : (p < q)%nat) by (apply c_inv_lt; try assumption; lia).
      rewrite (collect_lt_spec (S (length c)) c (nthZ b j0) p q []).
      + cbn [app]. rewrite (collect_last_stop q j0 _ Hq ltac:(lia) Eq).
        destruct (IH (S j0) q (outs ++ [match seq p (q - p) with [] => ODummy | [x] => OAlias x | _ => OConcat (seq p (q - p)) end]))
          as [outs' [E [Hlen Hall]]]; try lia.
        { replace (S j0 - 1)%nat with j0 by lia. exact Eq. }
        eexists (_ :: outs'). split; [rewrite E, <- app_assoc; reflexivity|].
        split; [cbn [length]; lia|].
        intros u Hu. destruct u as [|u].
        * exists p, q. cbn [nth]. rewrite ks_of_match.
          replace (j0 - 1 + 0)%nat with (j0 - 1)%nat by lia. replace (j0 + 0)%nat with j0 by lia.
          repeat split; try assumption; lia.
        * destruct (Hall u ltac:(lia)) as [p' [q' [A1 [A2 [A3 [A4 A5]]]]]].
          exists p', q'. cbn [nth].
          replace (j0 - 1 + S u)%nat with (S j0 - 1 + u)%nat by lia.
          replace (j0 + S u)%nat with (S j0 + u)%nat by lia.
          repeat split; assumption.
      + intros t Ht. rewrite <- Eq. apply c_lt; lia.
      + rewrite (sh_clen _ _ _ _ _ Sh). lia.
      + lia.
      + lia.
      + rewrite (sh_clen _ _ _ _ _ Sh). lia.
  Qed.
End Phase2.

(* ---------- generic list lemmas for the checker side ---------- *)
Ltac nzb :=
  repeat match goal with
  | |- context [(?x =? ?y)%nat] => destruct (Nat.eqb_spec x y)
  | |- context [(?x <=? ?y)%nat] => destruct (Nat.leb_spec x y)
  | |- context [(?x <? ?y)%nat] => destruct (Nat.ltb_spec x y)
  | |- context [?x <=? ?y] => destruct (Z.leb_spec x y)
  | |- context [?x <? ?y] => destruct (Z.ltb_spec x y)
  | |- context [?x =? ?y] => destruct (Z.eqb_spec x y)
  end.

Ltac nzb1 :=
  match goal with
  | |- context [(?x =? ?y)%nat] => destruct (Nat.eqb_spec x y)
  | |- context [(?x <=? ?y)%nat] => destruct (Nat.leb_spec x y)
  | |- context [(?x <? ?y)%nat] => destruct (Nat.ltb_spec x y)
  | |- context [?x <=? ?y] => destruct (Z.leb_spec x y)
  | |- context [?x <? ?y] => destruct (Z.ltb_spec x y)
  | |- context [?x =? ?y] => destruct (Z.eqb_spec x y)
  | H : context [?x <=? ?y] |- _ => destruct (Z.leb_spec x y)
  | H : context [?x <? ?y] |- _ => destruct (Z.ltb_spec x y)
  | H : context [?x =? ?y] |- _ => destruct (Z.eqb_spec x y)
  end.

Lemma filter_true : forall A (f : A -> bool) l, (forall x, In x l -> f x = true) -> filter f l = l.
Proof.
  induction l as [|x l IH]; intros H; [reflexivity|].
  cbn [filter]. rewrite (H x (or_introl eq_refl)). f_equal. apply IH. intros y Hy. apply H. right. exact Hy.
Qed.

Lemma filter_seq_range : forall t0 len p q, (t0 <= p)%nat -> (p <= q)%nat -> (q <= t0 + len)%nat ->
  filter (fun t => (p <=? t)%nat && (t <? q)%nat) (seq t0 len) = seq p (q - p).
Proof.
  intros t0 len p q H1 H2 H3.
  replace len with ((p - t0) + ((q - p) + (t0 + len - q)))%nat by lia.
  rewrite !seq_app. replace (t0 + (p - t0))%nat with p by lia. replace (p + (q - p))%nat with q by lia.
  rewrite !filter_app.
  rewrite (filter_false _ _ (seq t0 (p - t0))).
  2:{ intros t Ht. apply in_seq in Ht. nzb; cbn; try reflexivity; lia. }
  rewrite (filter_false _ _ (seq q (t0 + len - q))).
  2:{ intros t Ht. apply in_seq in Ht. nzb; cbn; try reflexivity; lia. }
  rewrite (filter_true _ _ (seq p (q - p))).
  2:{ intros t Ht. apply in_seq in Ht. nzb; cbn; try reflexivity; lia. }
  cbn [app]. apply app_nil_r.
Qed.

Lemma sortedZ_seq : forall (g : nat -> Z) len p,
  (forall t, (p <= t)%nat -> (S t < p + len)%nat -> g t <= g (S t)) -> sortedZ (map g (seq p len)).
Proof.
  induction len as [|len IH]; intros p H; [exact I|].
  cbn [seq map]. split.
  - destruct len as [|len']; [exact I|]. cbn [seq map]. apply H; lia.
  - apply IH. intros t Ht1 Ht2. apply H; lia.
Qed.

Lemma concat_groups : forall (key : nat -> nat) ks,
  sortedZ (map (fun t => Z.of_nat (key t)) ks) ->
  forall n lo, concat (map (fun i => filter (fun t => (key t =? i)%nat) ks) (seq lo n))
               = filter (fun t => (lo <=? key t)%nat && (key t <? lo + n)%nat) ks.
Proof.
  intros key ks Hs. induction n as [|n IH]; intros lo.
  - cbn [seq map concat]. symmetry. apply filter_false. intros t _. nzb; cbn; try reflexivity; lia.
  - cbn [seq map concat]. rewrite IH.
    transitivity (filter (fun t => (fun z => z =? Z.of_nat lo) (Z.of_nat (key t))) ks ++
                  filter (fun t => (fun z => (Z.of_nat (S lo) <=? z) && (z <? Z.of_nat (S lo + n))) (Z.of_nat (key t))) ks).
    { f_equal; apply filter_ext; intros t; cbv beta; nzb; cbn; try reflexivity; lia. }
    rewrite (filter_app_sorted nat (fun t => Z.of_nat (key t))
               (fun z => z =? Z.of_nat lo)
               (fun z => (Z.of_nat (S lo) <=? z) && (z <? Z.of_nat (S lo + n)))
               (fun z => (Z.of_nat lo <=? z) && (z <? Z.of_nat (lo + S n)))).
    + apply filter_ext. intros t. cbv beta. nzb; cbn; try reflexivity; lia.
    + intros x y Hx Hy. cbv beta in Hx, Hy. apply Z.eqb_eq in Hx. apply andb_true_iff in Hy.
      destruct Hy as [Hy _]. apply Z.leb_le in Hy. lia.
    + intros x. nzb; cbn; try reflexivity; lia.
    + exact Hs.
Qed.

Lemma eqb_nats_refl : forall l, eqb_nats l l = true.
Proof. induction l as [|x l IH]; [reflexivity|]. cbn [eqb_nats]. rewrite Nat.eqb_refl, IH. reflexivity. Qed.

Lemma close_last_snoc : forall d0 x,
  close_last (d0 ++ [x]) = d0 ++ [{| s_src := s_src x; s_lo := s_lo x; s_hi := s_hi x; s_closed := true |}].
Proof. intros. unfold close_last. rewrite rev_unit, rev_involutive. reflexivity. Qed.

Lemma getS_close_last : forall d t, (t < length d)%nat ->
  getS (close_last d) t =
  {| s_src := s_src (nth t d dslice); s_lo := s_lo (nth t d dslice); s_hi := s_hi (nth t d dslice);
     s_closed := if (S t =? length d)%nat then true else s_closed (nth t d dslice) |}.
Proof.
  intros d t Ht. destruct (exists_last (l := d)) as [d0 [x E]]; [intros ->; cbn in Ht; lia|].
  subst d. rewrite close_last_snoc. unfold getS. rewrite app_length in *. cbn [length] in *.
  destruct (Nat.eq_dec t (length d0)) as [->|Hne].
  - rewrite !app_nth2 by lia. rewrite Nat.sub_diag. cbn [nth].
    destruct (Nat.eqb_spec (S (length d0)) (length d0 + 1)); [reflexivity|lia].
  - rewrite !app_nth1 by lia.
    destruct (Nat.eqb_spec (S t) (length d0 + 1)); [lia|].
    destruct (nth t d0 dslice); reflexivity.
Qed.

(* ---------- interval arithmetic needed for the checker ---------- *)
Lemma ieq_arith : forall ai ai1 bj bj1 L,
  ai < ai1 -> ai1 <= L -> bj < bj1 -> bj1 <= L -> Z.max ai bj < Z.min ai1 bj1 ->
  ieq (inter (Z.max ai bj, (Z.min ai1 bj1, Z.min ai1 bj1 =? L)) (ai, (ai1, ai1 =? L)))
      (inter (bj, (bj1, bj1 =? L)) (ai, (ai1, ai1 =? L))) = true.
Proof.
  intros ai ai1 bj bj1 L H1 H2 H3 H4 H5.
  unfold ieq, inter, ub_min, ub_le, iempty. cbn [fst snd].
  destruct (Z.max_spec ai bj) as [[? Hm]|[? Hm]]; rewrite ?Hm in *;
  destruct (Z.min_spec ai1 bj1) as [[? Hn]|[? Hn]]; rewrite ?Hn in *;
  repeat match goal with
  | |- context [Z.max ?x ?y] => first [rewrite (Z.max_l x y) by lia | rewrite (Z.max_r x y) by lia]
  end;
  repeat (nzb1; cbn [andb orb negb implb fst snd Bool.eqb] in *); try reflexivity; try lia.
Qed.

Lemma ieq_arith_empty : forall ai ai1 bj bj1 L,
  ai < ai1 -> ai1 <= L -> bj < bj1 -> bj1 <= L -> Z.min ai1 bj1 <= Z.max ai bj ->
  ieq (inter empty_ivl (ai, (ai1, ai1 =? L))) (inter (bj, (bj1, bj1 =? L)) (ai, (ai1, ai1 =? L))) = true.
Proof.
  intros ai ai1 bj bj1 L H1 H2 H3 H4 H5.
  unfold ieq, inter, ub_min, ub_le, iempty, empty_ivl. cbn [fst snd].
  destruct (Z.max_spec ai bj) as [[? Hm]|[? Hm]]; rewrite ?Hm in *;
  destruct (Z.min_spec ai1 bj1) as [[? Hn]|[? Hn]]; rewrite ?Hn in *;
  destruct (Z.max_spec 0 ai) as [[? Hp]|[? Hp]]; rewrite ?Hp in *;
  repeat match goal with
  | |- context [Z.max ?x ?y] => first [rewrite (Z.max_l x y) by lia | rewrite (Z.max_r x y) by lia]
  end;
  repeat (nzb1; cbn [andb orb negb implb fst snd Bool.eqb] in *); try reflexivity; try lia.
Qed.

(* ---------- the generated plan passes the checker ---------- *)
Section Check.
  Variables a b c : list Z.
  Variable d : list slice.
  Variable k : nat.
  Hypothesis Ha : strict_incr a = true.
  Hypothesis Hb : strict_incr b = true.
  Hypothesis Hla : (2 <= length a)%nat.
  Hypothesis Hlb : (2 <= length b)%nat.
  Hypothesis HL : lastZ a = lastZ b.
  Hypothesis Sh : Shape a b c d k.

  Let n := (length a - 1)%nat.
  Let m := (length b - 1)%nat.
  Let L := lastZ a.
  Let sl := close_last d.
  Let sg (t : nat) : nat := s_src (nth t d dslice).

  Lemma La' : L = nthZ a n. Proof. apply lastZ_nth. Qed.
  Lemma Lb' : L = nthZ b m. Proof. unfold L. rewrite HL. apply lastZ_nth. Qed.

  Lemma a_lt : forall i i', (i < i')%nat -> (i' <= n)%nat -> nthZ a i < nthZ a i'.
  Proof. intros i i'. apply (mono_lt (nthZ a) n (strict_adj' a Ha) i' i). Qed.
  Lemma a_le : forall i i', (i <= i')%nat -> (i' <= n)%nat -> nthZ a i <= nthZ a i'.
  Proof. apply (mono_le (nthZ a) n (strict_adj' a Ha)). Qed.
  Lemma a_inv_lt : forall i i', (i <= n)%nat -> (i' <= n)%nat -> nthZ a i < nthZ a i' -> (i < i')%nat.
  Proof. apply (mono_inv_lt (nthZ a) n (strict_adj' a Ha)). Qed.
  Lemma b_lt' : forall j j', (j < j')%nat -> (j' <= m)%nat -> nthZ b j < nthZ b j'.
  Proof. intros j j'. apply (mono_lt (nthZ b) m (strict_adj' b Hb) j' j). Qed.
  Lemma b_le' : forall j j', (j <= j')%nat -> (j' <= m)%nat -> nthZ b j <= nthZ b j'.
  Proof. apply (mono_le (nthZ b) m (strict_adj' b Hb)). Qed.
  Lemma c_le : forall t t', (t <= t')%nat -> (t' <= k)%nat -> nthZ c t <= nthZ c t'.
  Proof. apply (mono_le (nthZ c) k (sh_cmono _ _ _ _ _ Sh)). Qed.

  Lemma getS_sl : forall t, (t < k)%nat ->
    getS sl t = {| s_src := sg t; s_lo := nthZ c t; s_hi := nthZ c (S t); s_closed := (S t =? k)%nat |}.
  Proof.
    intros t Ht. unfold sl. rewrite getS_close_last by (rewrite (sh_klen _ _ _ _ _ Sh); exact Ht).
    rewrite (sh_klen _ _ _ _ _ Sh).
    destruct (sh_sl _ _ _ _ _ Sh t Ht) as [E1 [E2 [E3 _]]]. unfold sg.
    rewrite E1, E2, E3. destruct (S t =? k)%nat; reflexivity.
  Qed.

  Lemma sg_facts : forall t, (t < k)%nat ->
    (S (sg t) <= n)%nat /\ nthZ a (sg t) <= nthZ c t /\ nthZ c (S t) <= nthZ a (S (sg t)).
  Proof.
    intros t Ht. destruct (sh_sl _ _ _ _ _ Sh t Ht) as [_ [_ [_ [E4 [E5 E6]]]]]. unfold sg, n.
    repeat split; try assumption. lia.
  Qed.

  Lemma src_getS : forall t, (t < k)%nat -> s_src (getS sl t) = sg t.
  Proof. intros t Ht. rewrite getS_sl by exact Ht. reflexivity. Qed.

  Lemma sg_char : forall t i, (t < k)%nat -> (i < n)%nat ->
    (sg t = i <-> nthZ a i <= nthZ c t /\ nthZ c t < nthZ a (S i)).
  Proof.
    intros t i Ht Hi. destruct (sg_facts t Ht) as [F1 [F2 F3]].
    pose proof (sh_cmono _ _ _ _ _ Sh t Ht) as Hc. split.
    - intros <-. lia.
    - intros [G1 G2].
      assert (i < S (sg t))%nat by (apply a_inv_lt; lia).
      assert (sg t < S i)%nat by (apply a_inv_lt; lia). lia.
  Qed.

  Lemma sg_adj : forall t, (S t < k)%nat -> (sg t <= sg (S t))%nat.
  Proof.
    intros t Ht. destruct (sg_facts t ltac:(lia)) as [F1 [F2 F3]].
    destruct (sg_facts (S t) Ht) as [G1 [G2 G3]].
    pose proof (sh_cmono _ _ _ _ _ Sh t ltac:(lia)). pose proof (sh_cmono _ _ _ _ _ Sh (S t) Ht).
    assert (sg t < S (sg (S t)))%nat by (apply a_inv_lt; lia). lia.
  Qed.

  (* closedness flags as comparisons with L *)
  Lemma flag_c : forall t, (t <= k)%nat -> (t =? k)%nat = (nthZ c t =? L).
  Proof.
    intros t Ht. pose proof (sh_ck _ _ _ _ _ Sh) as Ek. fold L in Ek.
    destruct (Nat.eqb_spec t k) as [E0|NE]; destruct (Z.eqb_spec (nthZ c t) L) as [E|NE']; try reflexivity.
    - exfalso. apply NE'. rewrite E0. exact Ek.
    - exfalso. apply NE. apply (mono_inj (nthZ c) k (sh_cmono _ _ _ _ _ Sh)); lia.
  Qed.
  Lemma flag_a : forall i, (S i <= n)%nat -> (S (S i) =? length a)%nat = (nthZ a (S i) =? L).
  Proof.
    intros i Hi. rewrite La'.
    destruct (Nat.eqb_spec (S (S i)) (length a)) as [E|NE]; destruct (Z.eqb_spec (nthZ a (S i)) (nthZ a n)) as [E'|NE'];
      try reflexivity.
    - exfalso. apply NE'. f_equal. unfold n. lia.
    - exfalso. apply NE. pose proof (mono_inj (nthZ a) n (strict_adj' a Ha) (S i) n Hi ltac:(lia) E'). unfold n in *. lia.
  Qed.
  Lemma flag_b : forall j, (S j <= m)%nat -> (S (S j) =? length b)%nat = (nthZ b (S j) =? L).
  Proof.
    intros j Hj. rewrite Lb'.
    destruct (Nat.eqb_spec (S (S j)) (length b)) as [E|NE]; destruct (Z.eqb_spec (nthZ b (S j)) (nthZ b m)) as [E'|NE'];
      try reflexivity.
    - exfalso. apply NE'. f_equal. unfold m. lia.
    - exfalso. apply NE. pose proof (mono_inj (nthZ b) m (strict_adj' b Hb) (S j) m Hj ltac:(lia) E'). unfold m in *. lia.
  Qed.

  Lemma chain_seq : forall len p, (p + len <= k)%nat ->
    chain_ok (map (getS sl) (seq p len)) = true /\
    ((1 <= len)%nat -> hull (map (getS sl) (seq p len)) = (nthZ c p, (nthZ c (p + len), (p + len =? k)%nat))).
  Proof.
    induction len as [|len IH]; intros p Hp.
    - split; [reflexivity|lia].
    - destruct len as [|len'].
      + cbn [seq map]. rewrite getS_sl by lia. cbn [chain_ok hull ivl_of s_lo s_hi s_closed].
        pose proof (sh_cmono _ _ _ _ _ Sh p ltac:(lia)).
        split.
        * rewrite andb_true_r. apply Z.leb_le. lia.
        * intros _. replace (p + 1)%nat with (S p) by lia. reflexivity.
      + destruct (IH (S p) ltac:(lia)) as [C H]. specialize (H ltac:(lia)).
        change (seq p (S (S len'))) with (p :: seq (S p) (S len')).
        change (map (getS sl) (p :: seq (S p) (S len'))) with (getS sl p :: map (getS sl) (seq (S p) (S len'))).
        remember (map (getS sl) (seq (S p) (S len'))) as r eqn:Er.
        assert (Er' : exists r', r = getS sl (S p) :: r').
        { rewrite Er. cbn [seq map]. eexists. reflexivity. }
        destruct Er' as [r' Er']. rewrite Er' in *.
        change (chain_ok (getS sl p :: getS sl (S p) :: r')) with
          ((s_lo (getS sl p) <=? s_hi (getS sl p)) &&
           (negb (s_closed (getS sl p)) && (s_hi (getS sl p) =? s_lo (getS sl (S p))) && chain_ok (getS sl (S p) :: r'))).
        change (hull (getS sl p :: getS sl (S p) :: r')) with (s_lo (getS sl p), snd (hull (getS sl (S p) :: r'))).
        rewrite C, H. rewrite (getS_sl p) by lia. rewrite (getS_sl (S p)) by lia.
        cbn [s_lo s_hi s_closed snd].
        pose proof (sh_cmono _ _ _ _ _ Sh p ltac:(lia)).
        split.
        * rewrite Z.eqb_refl. destruct (Nat.eqb_spec (S p) k); [lia|].
          cbn [negb andb]. rewrite andb_true_r. apply Z.leb_le. lia.
        * intros _. replace (S p + S len')%nat with (p + S (S len'))%nat by lia. reflexivity.
  Qed.

  Section OneOut.
    Variables j p q : nat.
    Hypothesis Hj : (j < m)%nat.
    Hypothesis Hpq : (p <= q)%nat.
    Hypothesis Hq : (q <= k)%nat.
    Hypothesis Ep : nthZ c p = nthZ b j.
    Hypothesis Eq : nthZ c q = nthZ b (S j).

    Lemma range_facts : forall t, (p <= t < q)%nat -> nthZ b j <= nthZ c t /\ nthZ c t < nthZ b (S j).
    Proof.
      intros t Ht. rewrite <- Ep, <- Eq. split; [apply c_le; lia|].
      apply (mono_lt (nthZ c) k (sh_cmono _ _ _ _ _ Sh)); lia.
    Qed.

    Lemma check_src_ok : forall i, (i < n)%nat -> check_src a b sl j (seq p (q - p)) i = true.
    Proof.
      intros i Hi. unfold check_src, group.
      pose proof (a_lt i (S i) ltac:(lia) ltac:(lia)) as Hai.
      pose proof (b_lt' j (S j) ltac:(lia) ltac:(lia)) as Hbj.
      pose proof (a_le (S i) n ltac:(lia) ltac:(lia)) as HaL. rewrite <- La' in HaL.
      pose proof (b_le' (S j) m ltac:(lia) ltac:(lia)) as HbL. rewrite <- Lb' in HbL.
      unfold tgt. rewrite (flag_a i) by lia. rewrite (flag_b j) by lia.
      destruct (Z_lt_le_dec (Z.max (nthZ a i) (nthZ b j)) (Z.min (nthZ a (S i)) (nthZ b (S j)))) as [Hxy|Hyx].
      - (* non-empty overlap *)
        assert (Hpx : exists px, (px <= k)%nat /\ nthZ c px = Z.max (nthZ a i) (nthZ b j)).
        { destruct (Z.max_spec (nthZ a i) (nthZ b j)) as [[_ ->]|[_ ->]].
          - apply (sh_inb _ _ _ _ _ Sh). unfold m in Hj. lia.
          - apply (sh_ina _ _ _ _ _ Sh). unfold n in Hi. lia. }
        assert (Hqy : exists qy, (qy <= k)%nat /\ nthZ c qy = Z.min (nthZ a (S i)) (nthZ b (S j))).
        { destruct (Z.min_spec (nthZ a (S i)) (nthZ b (S j))) as [[_ ->]|[_ ->]].
          - apply (sh_ina _ _ _ _ _ Sh). unfold n in Hi. lia.
          - apply (sh_inb _ _ _ _ _ Sh). unfold m in Hj. lia. }
        destruct Hpx as [px [Hpxk Epx]]. destruct Hqy as [qy [Hqyk Eqy]].
        pose proof (mono_inv_le (nthZ c) k (sh_cmono _ _ _ _ _ Sh)) as CIle.
        pose proof (mono_inv_lt (nthZ c) k (sh_cmono _ _ _ _ _ Sh)) as CIlt.
        pose proof (fun t t' => mono_lt (nthZ c) k (sh_cmono _ _ _ _ _ Sh) t' t) as Clt.
        assert (p <= px)%nat by (apply CIle; lia).
        assert (px < qy)%nat by (apply CIlt; lia).
        assert (qy <= q)%nat by (apply CIle; lia).
        assert (G : filter (fun t => (s_src (getS sl t) =? i)%nat) (seq p (q - p)) = seq px (qy - px)).
        { rewrite <- (filter_seq_range p (q - p) px qy) by lia.
          apply filter_ext_in. intros t Ht. apply in_seq in Ht.
          rewrite src_getS by lia.
          destruct (range_facts t ltac:(lia)) as [R1 R2].
          pose proof (sg_char t i ltac:(lia) Hi) as SC.
          assert (E1 : (px <= t)%nat <-> Z.max (nthZ a i) (nthZ b j) <= nthZ c t).
          { rewrite <- Epx. split; intros HH; [apply c_le; lia|apply CIle; lia]. }
          assert (E2 : (t < qy)%nat <-> nthZ c t < Z.min (nthZ a (S i)) (nthZ b (S j))).
          { rewrite <- Eqy. split; intros HH; [apply Clt; lia|apply CIlt; lia]. }
          destruct (Nat.eqb_spec (sg t) i) as [A|A]; destruct (Nat.leb_spec px t) as [B|B];
            destruct (Nat.ltb_spec t qy) as [C|C]; cbn [andb]; try reflexivity; exfalso;
            try (apply SC in A); lia. }
        rewrite G. destruct (chain_seq (qy - px) px ltac:(lia)) as [CC HH]. specialize (HH ltac:(lia)).
        rewrite CC, HH. cbn [andb]. replace (px + (qy - px))%nat with qy by lia.
        rewrite (flag_c qy Hqyk), Epx, Eqy.
        apply ieq_arith; assumption.
      - (* empty overlap: no slice of this output reads partition i *)
        assert (G : filter (fun t => (s_src (getS sl t) =? i)%nat) (seq p (q - p)) = []).
        { apply filter_false. intros t Ht. apply in_seq in Ht. rewrite src_getS by lia.
          destruct (range_facts t ltac:(lia)) as [R1 R2].
          pose proof (sg_char t i ltac:(lia) Hi) as SC.
          destruct (Nat.eqb_spec (sg t) i) as [A|A]; [|reflexivity]. exfalso. apply SC in A. lia. }
        rewrite G. cbn [map chain_ok hull andb].
        apply ieq_arith_empty; assumption.
    Qed.

    Lemma check_out_ok : check_out a b sl j (seq p (q - p)) = true.
    Proof.
      unfold check_out. fold n. apply andb_true_iff. split.
      - assert (E : concat (map (group sl (seq p (q - p))) (seq 0 n)) = seq p (q - p)).
        { unfold group.
          rewrite (concat_groups (fun t => s_src (getS sl t)) (seq p (q - p))).
          - apply filter_true. intros t Ht. apply in_seq in Ht. rewrite src_getS by lia.
            destruct (sg_facts t ltac:(lia)) as [F _].
            destruct (Nat.leb_spec 0 (sg t)); destruct (Nat.ltb_spec (sg t) (0 + n)); cbn; try reflexivity; lia.
          - apply (sortedZ_seq (fun t => Z.of_nat (s_src (getS sl t)))). intros t Ht1 Ht2.
            rewrite !src_getS by lia. pose proof (sg_adj t ltac:(lia)). lia. }
        rewrite E. apply eqb_nats_refl.
      - apply forallb_forall. intros i Hi. apply in_seq in Hi. apply check_src_ok. lia.
    Qed.
  End OneOut.
End Check.

Lemma shape_c0 : forall a b c d k, strict_incr a = true -> Shape a b c d k -> nthZ c 0 = nthZ a 0.
Proof.
  intros a b c d k Ha Sh.
  destruct (sh_ina _ _ _ _ _ Sh 0%nat) as [t [Ht Et]].
  { destruct (sh_sl _ _ _ _ _ Sh 0%nat (sh_kpos _ _ _ _ _ Sh)) as [_ [_ [_ [E4 _]]]]. lia. }
  destruct t as [|t]; [exact Et|]. exfalso.
  pose proof (sh_kpos _ _ _ _ _ Sh) as Hk.
  destruct (sh_sl _ _ _ _ _ Sh 0%nat Hk) as [_ [_ [_ [E4 [E5 _]]]]].
  pose proof (mono_lt (nthZ c) k (sh_cmono _ _ _ _ _ Sh) (S t) 0%nat ltac:(lia) Ht) as Hc.
  pose proof (mono_le (nthZ a) (length a - 1) (strict_adj' a Ha) 0%nat (s_src (nth 0 d dslice)) ltac:(lia) ltac:(lia)) as Hm.
  lia.
Qed.

Theorem repart_plan_gen_ok : forall a b,
  strict_incr a = true -> strict_incr b = true -> (2 <= length a)%nat -> (2 <= length b)%nat ->
  nthZ a 0 = nthZ b 0 -> lastZ a = lastZ b ->
  exists pl, repart_plan a b false = Some pl /\ plan_ok a b pl = true.
Proof.
  intros a b Ha Hb Hla Hlb H0 HL.
  rewrite (repart_plan_unfold a b Ha Hb Hla Hlb H0 HL).
  pose proof (shapeF a b Ha Hb Hla Hlb H0 HL) as Sh.
  set (c := cF a b) in *. set (d := dF a b) in *. set (k := kF a b) in *.
  destruct (phase2_spec a b c d k Hb Hlb HL Sh (length b - 1) 1 0 []) as [outs [E [Hlen Hall]]]; try lia.
  { cbn [Nat.sub]. rewrite <- H0. apply (shape_c0 a b c d k Ha Sh). }
  rewrite E. cbn [app]. eexists. split; [reflexivity|].
  unfold plan_ok. cbn [p_outs p_slices]. rewrite Hlen, Nat.eqb_refl. cbn [andb].
  apply forallb_forall. intros j Hj. apply in_seq in Hj.
  destruct (Hall j ltac:(lia)) as [p' [q' [A1 [A2 [A3 [A4 A5]]]]]].
  rewrite A5.
  replace (1 - 1 + j)%nat with j in A3 by lia. replace (1 + j)%nat with (S j) in A4 by lia.
  apply (check_out_ok a b c d k Ha Hb Hla Hlb HL Sh j p' q'); try assumption; lia.
Qed.


Lemma strict_valid : forall l, strict_incr l = true -> (2 <= length l)%nat -> valid_divs l = true.
Proof.
  intros l Hs Hl. unfold valid_divs. rewrite Hs. cbn [orb]. rewrite andb_true_r. apply Nat.leb_le. exact Hl.
Qed.

(* end-to-end, unbounded: for strictly increasing divisions with equal end points the generated plan
   exists and computes exactly the specified repartitioning on every conforming input *)
Corollary repart_plan_correct_strict : forall (row : Type) (idx : row -> Z) (a b : list Z) (P : list (list row)),
  strict_incr a = true -> strict_incr b = true -> (2 <= length a)%nat -> (2 <= length b)%nat ->
  nthZ a 0 = nthZ b 0 -> lastZ a = lastZ b ->
  respects idx a P -> parts_sorted idx P ->
  exists pl, repart_plan a b false = Some pl /\ exec_plan idx P pl = spec_plan idx b P.
Proof.
  intros row idx a b P Ha Hb Hla Hlb H0 HL Hresp Hsort.
  destruct (repart_plan_gen_ok a b Ha Hb Hla Hlb H0 HL) as [pl [E Hok]].
  exists pl. split; [exact E|].
  apply (plan_ok_sound row idx a b pl P (strict_valid a Ha Hla) (strict_valid b Hb Hlb) Hok Hresp Hsort).
Qed.

Check plan_ok_sound.
Check repart_plan_gen_ok.
Print Assumptions repart_plan_gen_ok.
Print Assumptions repart_plan_correct_strict.
Print Assumptions repart_plan_correct_bounded.
Print Assumptions plan_ok_sound.
Print Assumptions plan_gen_ok_bounded.
