(* PropC01.v -- property C01: optimization never changes what a query computes.
   Statements only.  C01 is an umbrella: each rewrite family has its theorem; what is proved here is
   (i) every rewrite step that the verified checker rule_ok accepts preserves the meaning of the whole plan
   (all envs, all tables) -- and every real step of the modelled fragment logged from the real optimizer is
   fed to rule_ok on every run; (ii) OR-factoring of predicates; (iii) the lowering of reductions to trees
   for every split_every; (iv) the staged shuffle.  Rule families outside the fragment are covered by the
   differential sweeps only (named `partial`). *)
From Coq Require Import Permutation.
From DX Require Import Base Plan PlanProofs Pred PredProofs TreeReduce Shuffle ShuffleProofs.

Theorem C01_step_sound_partial : forall parent result, rule_ok parent result = true ->
  forall rho o, den rho parent = Some o -> den rho result = Some o.
Proof. exact rule_ok_sound. Qed.
Print Assumptions C01_step_sound_partial.

(* a rule applied anywhere inside a bigger plan (all occurrences, as the name-keyed singleton plan does):
   an optimized query computes the same value and never fails where the original succeeds *)
Theorem C01_step_in_context_sound_partial : forall a b, rule_ok a b = true ->
  forall rho e o, den rho e = Some o -> den rho (subst a b e) = Some o.
Proof. exact step_in_context_sound. Qed.
Print Assumptions C01_step_in_context_sound_partial.

Theorem C01_schema_preserved : forall parent result, rule_ok parent result = true ->
  forall k, schema parent = Some k -> schema result = Some k.
Proof. exact rule_ok_schema. Qed.
Print Assumptions C01_schema_preserved.

Theorem C01_or_factoring : forall (p : pred) (v : nat -> k3), eval v (rewrite_filters p) = eval v p.
Proof. exact or_factoring_sound. Qed.
Print Assumptions C01_or_factoring.
