(* PropC01.v -- property C01: optimization never changes what a query computes.
   Statements only.  C01 is an umbrella: each rewrite family has its theorem; what is proved here is
   (i) every rewrite step that the verified checker rule_ok accepts preserves the meaning of the whole plan
   (all envs, all tables) -- and every real step of the modelled fragment logged from the real optimizer is
   fed to rule_ok on every run; (ii) OR-factoring of predicates; (iii) the lowering of reductions to trees
   for every split_every; (iv) the staged shuffle.  Rule families outside the fragment are covered by the
   differential sweeps only (named `partial`). *)
From Coq Require Import Permutation.
From DX Require Import Base Plan PlanProofs Pred PredProofs TreeReduce Shuffle ShuffleProofs.

Theorem C01_step_sound_partial : forall parent result, rule_ok parent result = true ->
  forall rho o, den rho parent = Some o -> den rho result = Some o.
Proof. exact rule_ok_sound. Qed.
Print Assumptions C01_step_sound_partial.

(* a rule applied anywhere inside a bigger plan (all occurrences, as the name-keyed singleton plan does):
   an optimized query computes the same value and never fails where the original succeeds *)
Theorem C01_step_in_context_sound_partial : forall a b, rule_ok a b = true ->
  forall rho e o, den rho e = Some o -> den rho (subst a b e) = Some o.
Proof. exact step_in_context_sound. Qed.
Print Assumptions C01_step_in_context_sound_partial.

Theorem C01_schema_preserved : forall parent result, rule_ok parent result = true ->
  forall k, schema parent = Some k -> schema result = Some k.
Proof. exact rule_ok_schema. Qed.
Print Assumptions C01_schema_preserved.

Theorem C01_or_factoring : forall (p : pred) (v : nat -> k3), eval v (rewrite_filters p) = eval v p.
Proof. exact or_factoring_sound. Qed.
Print Assumptions C01_or_factoring.

(* rewrite rules about positional selection (Head / Tail pushed into element-wise operations, Partitions pushed into element-wise
   operations, Head(SortValues) -> NFirst): sound for all rows and partitionings under the stated side conditions *)
From DX Require Import Select SelectProofs.
Theorem C01_head_pushdown_elemwise_sound : forall A B C (f : A -> B -> C) n k (P1 : list (list A)) (P2 : list (list B)),
  same_shape P1 P2 ->
  head_spec n k (elemwise2 f P1 P2) = zipw f (head_spec n k P1) (head_spec n k P2).
Proof. exact head_spec_elemwise2. Qed.
Print Assumptions C01_head_pushdown_elemwise_sound.

Theorem C01_partitions_pushdown_elemwise_sound : forall A B C (f : A -> B -> C) sel (P1 : list (list A)) (P2 : list (list B)),
  same_shape P1 P2 -> Forall (fun i => i < length P1) sel ->
  select sel (elemwise2 f P1 P2) = elemwise2 f (select sel P1) (select sel P2).
Proof. exact select_elemwise2. Qed.
Print Assumptions C01_partitions_pushdown_elemwise_sound.

Theorem C01_sorted_head_rewrite_sound : forall A (key : A -> Z) n (parts sp : list (list A)),
  sorted_partitioning key parts sp -> n <= length (hd [] sp) ->
  head_spec n 1 sp = nfirst_tree key n parts.
Proof. intros A key n parts sp H1 H2. rewrite nfirst_tree_correct. exact (head_of_sorted_is_nfirst A key n parts sp H1 H2). Qed.
Print Assumptions C01_sorted_head_rewrite_sound.
