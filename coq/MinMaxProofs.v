(* MinMaxProofs.v -- divisions derived from (min, max) statistics are truthful exactly when the
   statistics are strictly separated.  Stdlib only, no axioms. *)
From DX Require Import Base Divisions DivisionsProofs MinMax.
From Coq Require Import Permutation.
From Coq Require Import ZifyBool.

Local Notation d0 := (0%Z, 0%Z).

(* ================================================================== *)
(* 0. helpers                                                           *)
(* ================================================================== *)

Lemma separatedb_mm_spec : forall l, separatedb_mm l = true ->
  forall i, S i < length l -> (snd (nth i l d0) < fst (nth (S i) l d0))%Z.
Proof.
  induction l as [|a l IH]; intros H i Hi; [simpl in Hi; lia|].
  destruct l as [|b r]; [simpl in Hi; lia|].
  cbn [separatedb_mm] in H. apply andb_true_iff in H. destruct H as [H1 H2].
  destruct i as [|i].
  - simpl. apply Z.ltb_lt. exact H1.
  - change (nth (S i) (a :: b :: r) d0) with (nth i (b :: r) d0).
    change (nth (S (S i)) (a :: b :: r) d0) with (nth (S i) (b :: r) d0).
    apply IH; [exact H2|]. simpl in *. lia.
Qed.

Lemma mm_div_length : forall l, length (mm_divisions l) = length l + 1.
Proof. intros. unfold mm_divisions. rewrite app_length, map_length. reflexivity. Qed.

Lemma mm_div_nth_lt : forall l i, i < length l ->
  nth i (mm_divisions l) 0%Z = fst (nth i l d0).
Proof.
  intros l i Hi. unfold mm_divisions.
  rewrite app_nth1 by (rewrite map_length; exact Hi).
  apply (nth_map_lt fst l i d0 0%Z Hi).
Qed.

Lemma mm_div_nth_last : forall l,
  nth (length l) (mm_divisions l) 0%Z = snd (nth (length l - 1) l d0).
Proof.
  intros l. unfold mm_divisions.
  rewrite app_nth2 by (rewrite map_length; apply le_n).
  rewrite map_length, Nat.sub_diag. cbn [nth].
  rewrite last_nth_eq. reflexivity.
Qed.

(* ================================================================== *)
(* 1. strictly separated statistics give truthful divisions             *)
(* ================================================================== *)

Theorem mm_truthful : forall l parts,
  stats_ok l parts -> wf_stats l -> l <> [] -> separatedb_mm l = true ->
  truthful (mm_divisions l) parts.
Proof.
  intros l parts [Hlen Hok] Hwf Hne Hsep.
  pose proof (separatedb_mm_spec l Hsep) as Hs.
  assert (Hpos : 0 < length l) by (destruct l; [congruence|simpl; lia]).
  split; [|split].
  - rewrite mm_div_length. lia.
  - intros i Hi. rewrite mm_div_length in Hi.
    rewrite mm_div_nth_lt by lia.
    destruct (Nat.eq_dec (S i) (length l)) as [e|ne].
    + rewrite e, mm_div_nth_last. replace (length l - 1) with i by lia.
      apply Hwf. lia.
    + rewrite mm_div_nth_lt by lia.
      assert (Hi1 : S i < length l) by lia.
      assert (Hi0 : i < length l) by lia.
      specialize (Hs i Hi1). specialize (Hwf i Hi0). lia.
  - intros i x Hi Hx. destruct (Hok i x Hi Hx) as [H1 H2].
    unfold row_ok. rewrite mm_div_nth_lt by lia.
    split; [exact H1|].
    destruct (Nat.eq_dec (S i) (length l)) as [e|ne].
    + right. split; [lia|].
      rewrite e, mm_div_nth_last. replace (length l - 1) with i by lia. exact H2.
    + left. rewrite mm_div_nth_lt by lia.
      assert (Hi1 : S i < length l) by lia.
      specialize (Hs i Hi1). lia.
Qed.

(* ================================================================== *)
(* 2. the presorted fast path                                           *)
(* ================================================================== *)

Theorem presorted_truthful : forall l parts d,
  stats_ok l parts -> wf_stats l -> presorted_divisions l = Some d -> truthful d parts.
Proof.
  intros l parts d Hok Hwf H. unfold presorted_divisions in H.
  destruct (presortedb l && negb (is_nil l)) eqn:E; [|discriminate].
  injection H as <-.
  apply andb_true_iff in E. destruct E as [E1 E2].
  unfold presortedb in E1. apply andb_true_iff in E1. destruct E1 as [_ E3].
  apply mm_truthful; auto.
  intros ->. simpl in E2. discriminate.
Qed.

(* ================================================================== *)
(* 3. the relaxed (touching) test is wrong                              *)
(* ================================================================== *)

Theorem presorted_touching_refuted : exists l parts d,
  stats_ok l parts /\ wf_stats l /\ presorted_divisions_touching l = Some d /\ ~ truthful d parts.
Proof.
  exists [(0,3);(3,5)]%Z, [[0;3];[3;4]]%Z, [0;3;5]%Z.
  split; [|split; [|split]].
  - split; [reflexivity|].
    intros i x Hi Hx. simpl in Hi.
    destruct i as [|[|i]]; [| |lia].
    + simpl in Hx. destruct Hx as [<-|[<-|[]]]; simpl; lia.
    + simpl in Hx. destruct Hx as [<-|[<-|[]]]; simpl; lia.
  - intros i Hi. simpl in Hi. destruct i as [|[|i]]; simpl; lia.
  - vm_compute. reflexivity.
  - apply truthfulb_false. vm_compute. reflexivity.
Qed.

(* ================================================================== *)
(* 4. argsort is a permutation                                          *)
(* ================================================================== *)

Lemma insert_idx_perm : forall l j p, Permutation (insert_idx l j p) (j :: p).
Proof.
  intros l j p. induction p as [|k r IH]; cbn [insert_idx]; [apply Permutation_refl|].
  destruct (mm_leb (nth k l d0) (nth j l d0)); [|apply Permutation_refl].
  eapply perm_trans; [apply perm_skip; exact IH|apply perm_swap].
Qed.

Lemma fold_insert_perm : forall l xs acc,
  Permutation (fold_left (fun p j => insert_idx l j p) xs acc) (xs ++ acc).
Proof.
  intros l xs. induction xs as [|x xs IH]; intros acc; cbn [fold_left app].
  - apply Permutation_refl.
  - eapply perm_trans; [apply IH|].
    eapply perm_trans; [apply Permutation_app_head; apply insert_idx_perm|].
    apply Permutation_sym. apply Permutation_middle.
Qed.

Theorem argsort_perm : forall l, Permutation (argsort l) (seq 0 (length l)).
Proof.
  intros l. unfold argsort.
  eapply perm_trans; [apply fold_insert_perm|].
  rewrite app_nil_r. apply Permutation_refl.
Qed.

Corollary argsort_bound : forall l j, In j (argsort l) -> j < length l.
Proof.
  intros l j H. apply (Permutation_in j (argsort_perm l)) in H.
  apply in_seq in H. lia.
Qed.

Corollary argsort_length : forall l, length (argsort l) = length l.
Proof.
  intros l. rewrite (Permutation_length (argsort_perm l)). apply seq_length.
Qed.

(* ================================================================== *)
(* 5. read_parquet(calculate_divisions=True)                            *)
(* ================================================================== *)

Theorem stats_truthful : forall l parts d p,
  stats_ok l parts -> wf_stats l -> stats_divisions l = Some (d, p) ->
  truthful d (reindex parts p []) /\ Permutation p (seq 0 (length parts)).
Proof.
  intros l parts d p [Hlen Hok] Hwf H. unfold stats_divisions in H.
  destruct (separatedb_mm (reindex l (argsort l) d0) && negb (is_nil l)) eqn:E; [|discriminate].
  injection H as <- <-.
  apply andb_true_iff in E. destruct E as [E1 E2].
  split.
  - apply mm_truthful.
    + split.
      * unfold reindex. rewrite !map_length. reflexivity.
      * intros i x Hi Hx. unfold reindex in *. rewrite map_length in Hi.
        rewrite (nth_map_lt (fun j => nth j parts []) (argsort l) i 0 [] Hi) in Hx.
        rewrite (nth_map_lt (fun j => nth j l d0) (argsort l) i 0 d0 Hi).
        apply Hok; [|exact Hx].
        rewrite <- Hlen. apply argsort_bound. apply nth_In. exact Hi.
    + intros i Hi. unfold reindex in *. rewrite map_length in Hi.
      rewrite (nth_map_lt (fun j => nth j l d0) (argsort l) i 0 d0 Hi).
      apply Hwf. apply argsort_bound. apply nth_In. exact Hi.
    + intros Hn. apply (f_equal (@length _)) in Hn.
      unfold reindex in Hn. rewrite map_length, argsort_length in Hn.
      destruct l; simpl in *; discriminate.
    + exact E1.
  - rewrite <- Hlen. apply argsort_perm.
Qed.

(* ================================================================== *)
(* 6. the unfixed code (defect D30)                                     *)
(* ================================================================== *)

Theorem stats_old_refuted : exists l parts,
  stats_ok l parts /\ wf_stats l /\
  ~ truthful (fst (stats_divisions_old l)) (reindex parts (snd (stats_divisions_old l)) []).
Proof.
  exists [(5,9);(0,5)]%Z, [[5;9];[0;5]]%Z.
  split; [|split].
  - split; [reflexivity|].
    intros i x Hi Hx. simpl in Hi.
    destruct i as [|[|i]]; [| |lia].
    + simpl in Hx. destruct Hx as [<-|[<-|[]]]; simpl; lia.
    + simpl in Hx. destruct Hx as [<-|[<-|[]]]; simpl; lia.
  - intros i Hi. simpl in Hi. destruct i as [|[|i]]; simpl; lia.
  - apply truthfulb_false. vm_compute. reflexivity.
Qed.

(* ================================================================== *)
(* 7. the sorted statistics really are sorted                           *)
(* ================================================================== *)

Fixpoint isorted (l : list mm) (p : list nat) : Prop :=
  match p with
  | a :: ((b :: _) as r) => mm_leb (nth a l d0) (nth b l d0) = true /\ isorted l r
  | _ => True
  end.

Lemma mm_leb_total : forall a b, mm_leb a b = false -> mm_leb b a = true.
Proof.
  intros [a1 a2] [b1 b2]. unfold mm_leb. cbn [fst snd]. intros H.
  destruct (Z.ltb_spec a1 b1), (Z.eqb_spec a1 b1), (Z.leb_spec a2 b2);
    cbn in H; try discriminate;
    destruct (Z.ltb_spec b1 a1), (Z.eqb_spec b1 a1), (Z.leb_spec b2 a2);
    cbn; try reflexivity; lia.
Qed.

Lemma mm_leb_trans : forall a b c, mm_leb a b = true -> mm_leb b c = true -> mm_leb a c = true.
Proof.
  intros [a1 a2] [b1 b2] [c1 c2]. unfold mm_leb. cbn [fst snd]. intros H1 H2.
  destruct (Z.ltb_spec a1 b1), (Z.eqb_spec a1 b1), (Z.leb_spec a2 b2);
    cbn in H1; try discriminate;
    destruct (Z.ltb_spec b1 c1), (Z.eqb_spec b1 c1), (Z.leb_spec b2 c2);
    cbn in H2; try discriminate;
    destruct (Z.ltb_spec a1 c1), (Z.eqb_spec a1 c1), (Z.leb_spec a2 c2);
    cbn; try reflexivity; lia.
Qed.

Lemma isorted_cons2 : forall l a b r,
  isorted l (a :: b :: r) <-> (mm_leb (nth a l d0) (nth b l d0) = true /\ isorted l (b :: r)).
Proof. intros. reflexivity. Qed.

Lemma insert_sorted : forall l j p, isorted l p -> isorted l (insert_idx l j p).
Proof.
  intros l j p. induction p as [|k r IH]; intros H.
  - exact I.
  - cbn [insert_idx]. destruct (mm_leb (nth k l d0) (nth j l d0)) eqn:E.
    + destruct r as [|k2 r2].
      * cbn [insert_idx]. apply isorted_cons2. split; [exact E|exact I].
      * apply isorted_cons2 in H. destruct H as [H1 H2]. specialize (IH H2).
        cbn [insert_idx] in IH |- *.
        destruct (mm_leb (nth k2 l d0) (nth j l d0)) eqn:E2.
        -- apply isorted_cons2. split; [exact H1|exact IH].
        -- apply isorted_cons2. split; [exact E|exact IH].
    + apply isorted_cons2. split; [apply mm_leb_total; exact E|exact H].
Qed.

Lemma fold_insert_sorted : forall l xs acc,
  isorted l acc -> isorted l (fold_left (fun p j => insert_idx l j p) xs acc).
Proof.
  intros l xs. induction xs as [|x xs IH]; intros acc H; cbn [fold_left].
  - exact H.
  - apply IH. apply insert_sorted. exact H.
Qed.

Lemma isorted_nth : forall l p, isorted l p -> forall i, S i < length p ->
  mm_leb (nth (nth i p 0) l d0) (nth (nth (S i) p 0) l d0) = true.
Proof.
  intros l p. induction p as [|a p IH]; intros H i Hi; [simpl in Hi; lia|].
  destruct p as [|b r]; [simpl in Hi; lia|].
  apply isorted_cons2 in H. destruct H as [H1 H2].
  destruct i as [|i].
  - exact H1.
  - change (nth (S i) (a :: b :: r) 0) with (nth i (b :: r) 0).
    change (nth (S (S i)) (a :: b :: r) 0) with (nth (S i) (b :: r) 0).
    apply IH; [exact H2|]. simpl in *. lia.
Qed.

Theorem argsort_sorted : forall l i,
  S i < length l ->
  mm_leb (nth (nth i (argsort l) 0) l (0%Z,0%Z)) (nth (nth (S i) (argsort l) 0) l (0%Z,0%Z)) = true.
Proof.
  intros l i Hi. apply isorted_nth.
  - unfold argsort. apply fold_insert_sorted. exact I.
  - rewrite argsort_length. exact Hi.
Qed.

Print Assumptions mm_truthful.
Print Assumptions presorted_truthful.
Print Assumptions presorted_touching_refuted.
Print Assumptions argsort_perm.
Print Assumptions argsort_bound.
Print Assumptions argsort_length.
Print Assumptions stats_truthful.
Print Assumptions stats_old_refuted.
Print Assumptions argsort_sorted.
