(* LocListProofs.v -- theorems about LocList.v: `df.loc[[l1, l2, ...]]` on known divisions (LocList._layer_information).
   Stdlib only, no axioms.
   Every statement of the task is proved exactly as given (none turned out false).  Three of them are proved first in a
   STRONGER form (ll_rows_sound_gen, ll_rows_complete_gen, ll_truthful_gen: several hypotheses of the task statements are
   not needed) and the stated theorems are corollaries. *)
From DX Require Import Base Divisions DivisionsProofs DivisionsExtra Loc LocProofs LocList.
From Coq Require Import ZifyBool Sorted.

(* every requested label lies inside the range the divisions cover *)
Definition labels_in_range (divs : list Z) (labels : list Z) : Prop :=
  forall v, In v labels -> (hd 0 divs <= v <= last divs 0)%Z.

(* ================================================================== *)
(* 0. min_list / max_list                                               *)
(* ================================================================== *)

Lemma fold_min_le : forall l d x, In x l -> (fold_right Z.min d l <= x)%Z.
Proof.
  induction l as [|a l IH]; intros d x H; [inversion H|].
  simpl. destruct H as [<-|H]; [lia|]. specialize (IH d x H). lia.
Qed.

Lemma fold_max_ge : forall l d x, In x l -> (x <= fold_right Z.max d l)%Z.
Proof.
  induction l as [|a l IH]; intros d x H; [inversion H|].
  simpl. destruct H as [<-|H]; [lia|]. specialize (IH d x H). lia.
Qed.

Lemma fold_min_in : forall l d, fold_right Z.min d l = d \/ In (fold_right Z.min d l) l.
Proof.
  induction l as [|a l IH]; intros d; [left; reflexivity|].
  simpl. destruct (Z.min_spec a (fold_right Z.min d l)) as [[_ E]|[_ E]]; rewrite E.
  - right. left. reflexivity.
  - destruct (IH d) as [H|H]; [left; exact H|right; right; exact H].
Qed.

Lemma fold_max_in : forall l d, fold_right Z.max d l = d \/ In (fold_right Z.max d l) l.
Proof.
  induction l as [|a l IH]; intros d; [left; reflexivity|].
  simpl. destruct (Z.max_spec a (fold_right Z.max d l)) as [[_ E]|[_ E]]; rewrite E.
  - destruct (IH d) as [H|H]; [left; exact H|right; right; exact H].
  - right. left. reflexivity.
Qed.

Lemma min_list_le : forall l x, In x l -> (min_list l <= x)%Z.
Proof. intros l x H. unfold min_list. apply fold_min_le. exact H. Qed.

Lemma max_list_ge : forall l x, In x l -> (x <= max_list l)%Z.
Proof. intros l x H. unfold max_list. apply fold_max_ge. exact H. Qed.

Lemma min_list_in : forall l, l <> [] -> In (min_list l) l.
Proof.
  intros l H. unfold min_list. destruct (fold_min_in l (hd 0%Z l)) as [E|E]; [|exact E].
  rewrite E. destruct l; [congruence|left; reflexivity].
Qed.

Lemma max_list_in : forall l, l <> [] -> In (max_list l) l.
Proof.
  intros l H. unfold max_list. destruct (fold_max_in l (hd 0%Z l)) as [E|E]; [|exact E].
  rewrite E. destruct l; [congruence|left; reflexivity].
Qed.

Lemma min_le_max_list : forall l, l <> [] -> (min_list l <= max_list l)%Z.
Proof. intros l H. apply min_list_le. apply max_list_in. exact H. Qed.

(* ================================================================== *)
(* 1. structure of ll_items                                             *)
(* ================================================================== *)

Lemma labels_of_In : forall divs labels p v,
  In v (labels_of divs labels p) <-> In v labels /\ part_of divs v = p.
Proof. intros. unfold labels_of. rewrite filter_In, Nat.eqb_eq. tauto. Qed.

Lemma loc_labels_In : forall p ls x, In x (loc_labels p ls) <-> In x ls /\ In x p.
Proof.
  intros p ls x. unfold loc_labels. rewrite in_flat_map. split.
  - intros (v & Hv & Hx). apply filter_In in Hx. destruct Hx as [Hx E].
    apply Z.eqb_eq in E. subst v. split; assumption.
  - intros [H1 H2]. exists x. split; [exact H1|]. apply filter_In. split; [exact H2|apply Z.eqb_refl].
Qed.

Lemma ll_items_spec : forall divs labels it,
  In it (ll_items divs labels) <->
  fst it < length divs - 1 /\ snd it = labels_of divs labels (fst it) /\ snd it <> [].
Proof.
  intros divs labels it. unfold ll_items. rewrite filter_In, in_map_iff. split.
  - intros [(p & E & Hp) Hf]. subst it. apply in_seq in Hp. simpl in *.
    repeat split; [lia|]. destruct (labels_of divs labels p); [discriminate Hf|discriminate].
  - intros (H1 & H2 & H3). split.
    + exists (fst it). split; [|apply in_seq; lia].
      destruct it as [p ls]. simpl in *. subst ls. reflexivity.
    + destruct (snd it); [congruence|reflexivity].
Qed.

(* the labels of an item: requested, and all of them fall into the partition of the item *)
Lemma ll_items_label : forall divs labels it v,
  In it (ll_items divs labels) -> In v (snd it) -> In v labels /\ part_of divs v = fst it.
Proof.
  intros divs labels it v Hit Hv. apply ll_items_spec in Hit. destruct Hit as (_ & E & _).
  rewrite E in Hv. apply labels_of_In in Hv. exact Hv.
Qed.

Definition ltfst (a b : nat * list Z) : Prop := fst a < fst b.

Lemma ss_map_seq : forall (g : nat -> list Z) n a,
  StronglySorted ltfst (map (fun p => (p, g p)) (seq a n)).
Proof.
  intros g n. induction n as [|n IH]; intros a; simpl; constructor.
  - apply IH.
  - apply Forall_forall. intros x Hx. apply in_map_iff in Hx. destruct Hx as (p & E & Hp). subst x.
    apply in_seq in Hp. unfold ltfst. simpl. lia.
Qed.

Lemma ss_filter : forall (A : Type) (R : A -> A -> Prop) (f : A -> bool) (l : list A),
  StronglySorted R l -> StronglySorted R (filter f l).
Proof.
  intros A R f l H. induction H as [|a l Hs IH Hf]; simpl; [constructor|].
  destruct (f a); [|exact IH].
  constructor; [exact IH|].
  apply Forall_forall. intros x Hx. apply filter_In in Hx. destruct Hx as [Hx _].
  rewrite Forall_forall in Hf. apply Hf. exact Hx.
Qed.

Lemma ss_nth_adj : forall (A : Type) (R : A -> A -> Prop) (l : list A),
  StronglySorted R l -> forall k d, S k < length l -> R (nth k l d) (nth (S k) l d).
Proof.
  intros A R l H. induction H as [|a l Hs IH Hf]; intros k d Hk; simpl in Hk; [lia|].
  destruct k as [|k].
  - rewrite Forall_forall in Hf. apply Hf. simpl. apply nth_In. lia.
  - change (R (nth k l d) (nth (S k) l d)). apply IH. lia.
Qed.

(* the touched partitions are visited in strictly increasing order *)
Lemma ll_items_adj : forall divs labels k d,
  S k < length (ll_items divs labels) ->
  fst (nth k (ll_items divs labels) d) < fst (nth (S k) (ll_items divs labels) d).
Proof.
  intros divs labels k d Hk.
  apply (@ss_nth_adj _ ltfst); [|exact Hk].
  unfold ll_items. apply ss_filter. apply ss_map_seq.
Qed.

(* ================================================================== *)
(* 2. partition of a label / of a row                                   *)
(* ================================================================== *)

(* labels of a lower partition are strictly below labels of a higher one *)
Lemma part_of_lt_sep : forall divs v1 v2,
  sortedZ divs -> part_of divs v1 < part_of divs v2 -> (v1 < v2)%Z.
Proof.
  intros divs v1 v2 Hs Hlt.
  assert (Hl : 2 <= length divs) by (unfold part_of in *; lia).
  pose proof (part_of_bound divs v2 Hl) as Hb.
  destruct (part_of_upper divs v1 Hs Hl) as [E|Hu]; [lia|].
  destruct (part_of_lower divs v2 Hs Hl) as [E|Hlo]; [lia|].
  assert ((nth (S (part_of divs v1)) divs 0 <= nth (part_of divs v2) divs 0)%Z)
    by (apply sortedZ_le; [exact Hs|lia|lia]).
  lia.
Qed.

Lemma bisect_right_ge : forall divs v k,
  k <= length divs -> (forall i, i < k -> (nth i divs 0 <= v)%Z) -> k <= bisect_right divs v.
Proof.
  induction divs as [|a r IH]; intros v k Hk H; simpl in Hk; [lia|].
  destruct k as [|k]; [lia|].
  simpl. assert (Ha : (a <= v)%Z) by (apply (H 0); lia).
  destruct (a <=? v)%Z eqn:E; [|lia].
  apply le_n_S. apply IH; [lia|].
  intros i Hi. apply (H (S i)). lia.
Qed.

Lemma bisect_right_le : forall divs v k,
  k < length divs -> (v < nth k divs 0)%Z -> bisect_right divs v <= k.
Proof.
  intros divs v k Hk Hv.
  destruct (Nat.le_gt_cases (bisect_right divs v) k) as [H|H]; [exact H|].
  pose proof (bisect_right_prefix divs v k H). lia.
Qed.

(* a row of partition j is located in partition j (a row equal to a division belongs to the partition on its right,
   unless it is the very last division: exactly what row_ok says) *)
Lemma row_part_of : forall divs parts j x,
  truthful divs parts -> j < length parts -> In x (nth j parts []) -> part_of divs x = j.
Proof.
  intros divs parts j x (Hl & Hs & Hr) Hj Hx.
  destruct (Hr j x Hj Hx) as [Hlo Hhi].
  assert (Hge : S j <= bisect_right divs x).
  { apply bisect_right_ge; [lia|]. intros i Hi.
    assert ((nth i divs 0 <= nth j divs 0)%Z) by (apply sortedZ_le; [exact Hs|lia|lia]). lia. }
  destruct Hhi as [Hlt|[Hlast Hle]].
  - assert (bisect_right divs x <= S j) by (apply bisect_right_le; [lia|exact Hlt]).
    unfold part_of. lia.
  - unfold part_of. lia.
Qed.

(* ================================================================== *)
(* 3. rows                                                              *)
(* ================================================================== *)

Lemma ll_parts_nth : forall divs parts labels i,
  i < length (ll_items divs labels) ->
  nth i (ll_parts divs parts labels) [] =
  loc_labels (nth (fst (nth i (ll_items divs labels) (0, []))) parts [])
             (snd (nth i (ll_items divs labels) (0, []))).
Proof.
  intros divs parts labels i Hi. unfold ll_parts.
  rewrite (nth_map_lt _ (ll_items divs labels) i (0, []) []) by exact Hi. reflexivity.
Qed.

Lemma ll_parts_length : forall divs parts labels,
  length (ll_parts divs parts labels) = length (ll_items divs labels).
Proof. intros. unfold ll_parts. apply map_length. Qed.

(* stronger than asked: `truthful divs parts` is not needed, and the row carries a label of THAT item, from THAT partition *)
Lemma ll_rows_sound_gen : forall divs parts labels i x,
  In x (nth i (ll_parts divs parts labels) []) ->
  i < length (ll_items divs labels) /\
  In x labels /\
  part_of divs x = fst (nth i (ll_items divs labels) (0, [])) /\
  In x (nth (fst (nth i (ll_items divs labels) (0, []))) parts []).
Proof.
  intros divs parts labels i x H.
  destruct (Nat.lt_ge_cases i (length (ll_items divs labels))) as [Hi|Hi].
  - rewrite ll_parts_nth in H by exact Hi. apply loc_labels_In in H. destruct H as [Hl Hp].
    assert (Hit : In (nth i (ll_items divs labels) (0, [])) (ll_items divs labels)) by (apply nth_In; exact Hi).
    destruct (ll_items_label _ _ _ _ Hit Hl) as [H1 H2].
    repeat split; assumption.
  - rewrite nth_overflow in H by (rewrite ll_parts_length; exact Hi). inversion H.
Qed.

Theorem ll_rows_sound : forall divs parts labels i x,
  truthful divs parts -> In x (nth i (ll_parts divs parts labels) []) -> In x labels /\ In x (concat parts).
Proof.
  intros divs parts labels i x _ H.
  destruct (ll_rows_sound_gen _ _ _ _ _ H) as (_ & Hl & _ & Hp).
  split; [exact Hl|].
  apply in_concat. exists (nth (fst (nth i (ll_items divs labels) (0, []))) parts []).
  split; [|exact Hp].
  destruct (Nat.lt_ge_cases (fst (nth i (ll_items divs labels) (0, []))) (length parts)) as [Hj|Hj].
  - apply nth_In. exact Hj.
  - rewrite nth_overflow in Hp by exact Hj. inversion Hp.
Qed.

(* stronger than asked: `parts <> []` and `labels_in_range` are not needed (a row of a truthful frame is in range) *)
Theorem ll_rows_complete_gen : forall divs parts labels x,
  truthful divs parts ->
  In x labels -> In x (concat parts) -> In x (concat (ll_parts divs parts labels)).
Proof.
  intros divs parts labels x Ht Hl Hc.
  apply in_concat in Hc. destruct Hc as (p & Hp & Hx).
  destruct (In_nth parts p [] Hp) as (j & Hj & E). subst p.
  pose proof (row_part_of _ _ _ _ Ht Hj Hx) as Hpo.
  assert (Hv : In x (labels_of divs labels j)) by (apply labels_of_In; split; assumption).
  apply in_concat. exists (loc_labels (nth j parts []) (labels_of divs labels j)). split.
  - unfold ll_parts. apply in_map_iff. exists (j, labels_of divs labels j). split; [reflexivity|].
    apply ll_items_spec. simpl. destruct Ht as (Hlen & _ & _).
    repeat split; [lia|].
    intros E. rewrite E in Hv. inversion Hv.
  - apply loc_labels_In. split; assumption.
Qed.

Theorem ll_rows_complete : forall divs parts labels x,
  truthful divs parts -> parts <> [] -> labels_in_range divs labels ->
  In x labels -> In x (concat parts) -> In x (concat (ll_parts divs parts labels)).
Proof. intros divs parts labels x Ht _ _. apply ll_rows_complete_gen. exact Ht. Qed.

(* ================================================================== *)
(* 4. the reported divisions are truthful                               *)
(* ================================================================== *)

Lemma ll_divisions_length : forall divs labels,
  length (ll_divisions divs labels) = length (ll_items divs labels) + 1.
Proof. intros. unfold ll_divisions. rewrite app_length, map_length. reflexivity. Qed.

Lemma ll_divisions_nth : forall divs labels k,
  k < length (ll_items divs labels) ->
  nth k (ll_divisions divs labels) 0%Z = min_list (snd (nth k (ll_items divs labels) (0, []))).
Proof.
  intros divs labels k Hk. unfold ll_divisions.
  rewrite app_nth1 by (rewrite map_length; exact Hk).
  apply (nth_map_lt (fun it : nat * list Z => min_list (snd it)) (ll_items divs labels) k (0, []) 0%Z Hk).
Qed.

Lemma ll_divisions_last : forall divs labels,
  nth (length (ll_items divs labels)) (ll_divisions divs labels) 0%Z =
  max_list (snd (nth (length (ll_items divs labels) - 1) (ll_items divs labels) (0, []))).
Proof.
  intros divs labels. unfold ll_divisions.
  rewrite app_nth2 by (rewrite map_length; lia).
  rewrite map_length, Nat.sub_diag. simpl. rewrite last_nth_eq. reflexivity.
Qed.

(* stronger than asked: only the sortedness of the input divisions is used (not the rows of the input, nor
   `parts <> []`, `labels <> []`, `labels_in_range`): the rows returned for an item are labels of that item, and the
   labels of two different items are separated by a division *)
Theorem ll_truthful_gen : forall divs parts labels,
  sortedZ divs -> truthful (ll_divisions divs labels) (ll_parts divs parts labels).
Proof.
  intros divs parts labels Hs.
  set (items := ll_items divs labels).
  assert (Hin : forall k, k < length items -> In (nth k items (0, [])) items) by (intros; apply nth_In; assumption).
  assert (Hne : forall k, k < length items -> snd (nth k items (0, [])) <> []).
  { intros k Hk. apply (ll_items_spec divs labels). apply Hin. exact Hk. }
  assert (Hpo : forall k v, k < length items -> In v (snd (nth k items (0, []))) ->
                            part_of divs v = fst (nth k items (0, []))).
  { intros k v Hk Hv. apply (ll_items_label divs labels _ _ (Hin k Hk) Hv). }
  assert (Hsep : forall k v w, S k < length items ->
                   In v (snd (nth k items (0, []))) -> In w (snd (nth (S k) items (0, []))) -> (v < w)%Z).
  { intros k v w Hk Hv Hw. apply (part_of_lt_sep divs v w Hs).
    rewrite (Hpo k v) by (lia || exact Hv). rewrite (Hpo (S k) w) by (lia || exact Hw).
    apply ll_items_adj. exact Hk. }
  pose proof (ll_divisions_last divs labels) as HL. fold items in HL.
  split; [|split].
  - rewrite ll_divisions_length, ll_parts_length. reflexivity.
  - intros i Hi. rewrite ll_divisions_length in Hi. fold items in Hi.
    assert (Hi' : i < length items) by lia.
    rewrite (ll_divisions_nth divs labels i Hi'). fold items.
    destruct (Nat.eq_dec (S i) (length items)) as [E|E].
    + rewrite E, HL.
      replace (length items - 1) with i by lia.
      apply min_le_max_list. apply Hne. exact Hi'.
    + assert (Hi2 : S i < length items) by lia.
      rewrite (ll_divisions_nth divs labels (S i) Hi2). fold items.
      apply Z.lt_le_incl. apply (Hsep i); [exact Hi2| |]; apply min_list_in; apply Hne; lia.
  - intros i x Hi Hx. rewrite ll_parts_length in *. fold items in Hi |- *.
    rewrite ll_parts_nth in Hx by exact Hi. fold items in Hx.
    apply loc_labels_In in Hx. destruct Hx as [Hx _].
    split.
    + rewrite (ll_divisions_nth divs labels i Hi). fold items. apply min_list_le. exact Hx.
    + destruct (Nat.eq_dec (S i) (length items)) as [E|E].
      * right. split; [exact E|].
        rewrite E, HL.
        replace (length items - 1) with i by lia.
        apply max_list_ge. exact Hx.
      * left. assert (Hi2 : S i < length items) by lia.
        rewrite (ll_divisions_nth divs labels (S i) Hi2). fold items.
        apply (Hsep i); [exact Hi2|exact Hx|]. apply min_list_in. apply Hne. exact Hi2.
Qed.

Theorem ll_truthful : forall divs parts labels,
  truthful divs parts -> parts <> [] -> labels <> [] -> labels_in_range divs labels ->
  truthful (ll_divisions divs labels) (ll_parts divs parts labels).
Proof. intros divs parts labels (_ & Hs & _) _ _ _. apply ll_truthful_gen. exact Hs. Qed.

(* each output partition comes from the input partition its labels fall into, and output partitions follow increasing
   input partition numbers (what `partitions[i]` of the result reads) *)
Theorem ll_partition_source : forall divs parts labels i x,
  In x (nth i (ll_parts divs parts labels) []) ->
  In x (nth (part_of divs x) parts []).
Proof.
  intros divs parts labels i x H.
  destruct (ll_rows_sound_gen _ _ _ _ _ H) as (_ & _ & E & Hp). rewrite E. exact Hp.
Qed.

(* ================================================================== *)
(* 5. seed C06_b: first / last requested label                          *)
(* ================================================================== *)

Theorem ll_unsorted_refuted : exists divs parts labels,
  truthful divs parts /\ labels_in_range divs labels /\
  ~ truthful (ll_divisions_unsorted divs labels) (ll_parts divs parts labels).
Proof.
  exists [0; 10; 20]%Z, [[3; 7]; [12]]%Z, [7; 3; 12]%Z.
  split; [apply truthfulb_spec; vm_compute; reflexivity|].
  split.
  - intros v Hv. simpl in Hv. simpl. lia.
  - intros H. apply truthfulb_spec in H. vm_compute in H. discriminate H.
Qed.

(* the same request with the fixed formula *)
Example ll_sorted_witness :
  ll_divisions [0; 10; 20]%Z [7; 3; 12]%Z = [3; 12; 12]%Z /\
  ll_divisions_unsorted [0; 10; 20]%Z [7; 3; 12]%Z = [7; 12; 12]%Z /\
  ll_parts [0; 10; 20]%Z [[3; 7]; [12]]%Z [7; 3; 12]%Z = [[7; 3]; [12]]%Z.
Proof. vm_compute. repeat split. Qed.

Print Assumptions min_list_le.
Print Assumptions max_list_ge.
Print Assumptions min_list_in.
Print Assumptions max_list_in.
Print Assumptions ll_rows_sound.
Print Assumptions ll_rows_complete.
Print Assumptions ll_truthful.
Print Assumptions ll_truthful_gen.
Print Assumptions ll_partition_source.
Print Assumptions ll_unsorted_refuted.
