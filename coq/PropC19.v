(* PropC19.v -- property C19: optimization terminates, is deterministic and idempotent.
   The drivers are modelled as functions of an arbitrary one-pass rewriter (Drivers.v): determinism is
   definitional (they are functions); the theorems below are the fixed-point / idempotence facts and the
   termination criterion.  The concrete criterion is discharged for the fusion loop and monitored for the
   simplify passes on every run (pass counts, no "does not converge"); the joint measure for the whole
   rule set is the open part (C19 is `partial` there). *)
From DX Require Import Base Drivers.

Theorem C19_converged_is_fixpoint : forall (E : Type) (eqb : E -> E -> bool),
  (forall a b, eqb a b = true <-> a = b) -> forall (pass : E -> E) fuel seen e e',
  simplify E eqb pass fuel seen e = Converged E e' -> pass e' = e'.
Proof. exact simplify_fixpoint. Qed.
Print Assumptions C19_converged_is_fixpoint.

Theorem C19_optimize_idempotent : forall (E : Type) (eqb : E -> E -> bool),
  (forall a b, eqb a b = true <-> a = b) -> forall (pass : E -> E) fuel seen e e',
  simplify E eqb pass fuel seen e = Converged E e' ->
  forall fuel' seen', 1 <= fuel' -> simplify E eqb pass fuel' seen' e' = Converged E e'.
Proof. exact simplify_idempotent. Qed.
Print Assumptions C19_optimize_idempotent.

Theorem C19_lowering_idempotent : forall (E : Type) (eqb : E -> E -> bool),
  (forall a b, eqb a b = true <-> a = b) -> forall (pass : E -> E) fuel e e',
  iterate E eqb pass fuel e = Converged E e' -> forall fuel', 1 <= fuel' -> iterate E eqb pass fuel' e' = Converged E e'.
Proof. exact iterate_idempotent. Qed.
Print Assumptions C19_lowering_idempotent.

(* a measure that every changing pass strictly decreases rules out BOTH failure outcomes (non-convergence
   report and endless looping) and bounds the number of passes by mu e + 1 *)
Theorem C19_terminates_with_measure : forall (E : Type) (eqb : E -> E -> bool),
  (forall a b, eqb a b = true <-> a = b) -> forall (pass : E -> E) (mu : E -> nat),
  (forall e, pass e <> e -> mu (pass e) < mu e) ->
  forall e, exists e', simplify E eqb pass (S (mu e)) [] e = Converged E e'.
Proof. exact simplify_terminates. Qed.
Print Assumptions C19_terminates_with_measure.
