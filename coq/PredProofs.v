(* PredProofs.v -- OR-factoring of filter predicates (rewrite_filters) preserves Kleene three-valued meaning. *)
From DX Require Import Base Pred.

(* ---------- (1) pred_eqb is structural equality ---------- *)
Lemma pred_eqb_refl : forall p, pred_eqb p p = true.
Proof.
  induction p; simpl.
  - apply Nat.eqb_refl.
  - rewrite IHp1, IHp2; reflexivity.
  - rewrite IHp1, IHp2; reflexivity.
Qed.

Lemma pred_eqb_eq : forall p q, pred_eqb p q = true <-> p = q.
Proof.
  split.
  - revert q. induction p; destruct q; simpl; intro H; try discriminate.
    + apply Nat.eqb_eq in H. subst; reflexivity.
    + apply andb_true_iff in H. destruct H as [H1 H2].
      rewrite (IHp1 _ H1), (IHp2 _ H2); reflexivity.
    + apply andb_true_iff in H. destruct H as [H1 H2].
      rewrite (IHp1 _ H1), (IHp2 _ H2); reflexivity.
  - intros ->. apply pred_eqb_refl.
Qed.

Lemma mem_In : forall x l, mem x l = true <-> In x l.
Proof.
  intros x l. unfold mem. rewrite existsb_exists. split.
  - intros [y [Hy He]]. apply pred_eqb_eq in He. subst; assumption.
  - intros H. exists x. split; [assumption | apply pred_eqb_refl].
Qed.

Lemma mem_false_notIn : forall x l, mem x l = false <-> ~ In x l.
Proof.
  intros x l. rewrite <- mem_In. destruct (mem x l); split; intro H.
  - discriminate.
  - exfalso; apply H; reflexivity.
  - intro; discriminate.
  - reflexivity.
Qed.

(* ---------- (2) K3 is a bounded distributive lattice ---------- *)
Lemma k3_and_assoc : forall a b c, k3_and a (k3_and b c) = k3_and (k3_and a b) c.
Proof. destruct a, b, c; reflexivity. Qed.
Lemma k3_and_comm : forall a b, k3_and a b = k3_and b a.
Proof. destruct a, b; reflexivity. Qed.
Lemma k3_and_idem : forall a, k3_and a a = a.
Proof. destruct a; reflexivity. Qed.
Lemma k3_or_assoc : forall a b c, k3_or a (k3_or b c) = k3_or (k3_or a b) c.
Proof. destruct a, b, c; reflexivity. Qed.
Lemma k3_or_comm : forall a b, k3_or a b = k3_or b a.
Proof. destruct a, b; reflexivity. Qed.
Lemma k3_or_idem : forall a, k3_or a a = a.
Proof. destruct a; reflexivity. Qed.
Lemma k3_and_or_distr : forall a b c, k3_and a (k3_or b c) = k3_or (k3_and a b) (k3_and a c).
Proof. destruct a, b, c; reflexivity. Qed.
Lemma k3_or_and_distr : forall a b c, k3_or a (k3_and b c) = k3_and (k3_or a b) (k3_or a c).
Proof. destruct a, b, c; reflexivity. Qed.
Lemma k3_or_absorb : forall a b, k3_or a (k3_and a b) = a.
Proof. destruct a, b; reflexivity. Qed.
Lemma k3_and_absorb : forall a b, k3_and a (k3_or a b) = a.
Proof. destruct a, b; reflexivity. Qed.
Lemma k3_and_KT_r : forall a, k3_and a KT = a.
Proof. destruct a; reflexivity. Qed.
Lemma k3_and_KT_l : forall a, k3_and KT a = a.
Proof. destruct a; reflexivity. Qed.
Lemma k3_or_KF_r : forall a, k3_or a KF = a.
Proof. destruct a; reflexivity. Qed.
Lemma k3_or_KF_l : forall a, k3_or KF a = a.
Proof. destruct a; reflexivity. Qed.
Lemma k3_and_KF_r : forall a, k3_and a KF = KF.
Proof. destruct a; reflexivity. Qed.

Local Arguments k3_and : simpl never.
Local Arguments k3_or : simpl never.

(* ---------- (3) big conjunction / disjunction ---------- *)
Fixpoint all_and (v : nat -> k3) (l : list pred) : k3 :=
  match l with [] => KT | x :: r => k3_and (eval v x) (all_and v r) end.
Fixpoint all_or (v : nat -> k3) (l : list pred) : k3 :=
  match l with [] => KF | x :: r => k3_or (eval v x) (all_or v r) end.

Lemma all_and_app : forall v l1 l2, all_and v (l1 ++ l2) = k3_and (all_and v l1) (all_and v l2).
Proof.
  induction l1; intros; simpl.
  - rewrite k3_and_KT_l; reflexivity.
  - rewrite IHl1, k3_and_assoc; reflexivity.
Qed.

Lemma all_or_app : forall v l1 l2, all_or v (l1 ++ l2) = k3_or (all_or v l1) (all_or v l2).
Proof.
  induction l1; intros; simpl.
  - rewrite k3_or_KF_l; reflexivity.
  - rewrite IHl1, k3_or_assoc; reflexivity.
Qed.

Lemma eval_comps_and : forall v p, eval v p = all_and v (comps_and p).
Proof.
  induction p; simpl; try (rewrite k3_and_KT_r; reflexivity).
  rewrite all_and_app, <- IHp1, <- IHp2; reflexivity.
Qed.

Lemma eval_comps_or : forall v p, eval v p = all_or v (comps_or p).
Proof.
  induction p; simpl; try (rewrite k3_or_KF_r; reflexivity).
  rewrite all_or_app, <- IHp1, <- IHp2; reflexivity.
Qed.

Lemma eval_conj : forall v xs x, eval v (conj x xs) = all_and v (x :: xs).
Proof.
  unfold conj. induction xs; intros; simpl.
  - rewrite k3_and_KT_r; reflexivity.
  - rewrite IHxs. simpl. rewrite k3_and_assoc; reflexivity.
Qed.

Lemma eval_disj : forall v xs x, eval v (disj x xs) = all_or v (x :: xs).
Proof.
  unfold disj. induction xs; intros; simpl.
  - rewrite k3_or_KF_r; reflexivity.
  - rewrite IHxs. simpl. rewrite k3_or_assoc; reflexivity.
Qed.

(* ---------- (4) all_and depends only on the set of elements ---------- *)
Lemma all_and_In_absorb : forall v x l, In x l -> k3_and (eval v x) (all_and v l) = all_and v l.
Proof.
  induction l; simpl; intros H; [contradiction|].
  destruct H as [-> | H].
  - rewrite k3_and_assoc, k3_and_idem; reflexivity.
  - rewrite k3_and_assoc, (k3_and_comm (eval v x)), <- k3_and_assoc, IHl by assumption; reflexivity.
Qed.

Lemma all_and_incl_absorb : forall v l1 l2, incl l1 l2 -> k3_and (all_and v l1) (all_and v l2) = all_and v l2.
Proof.
  induction l1; simpl; intros l2 H.
  - apply k3_and_KT_l.
  - rewrite <- k3_and_assoc, IHl1.
    + apply all_and_In_absorb. apply H; left; reflexivity.
    + intros y Hy. apply H; right; assumption.
Qed.

Lemma all_and_set_eq : forall v l1 l2, incl l1 l2 -> incl l2 l1 -> all_and v l1 = all_and v l2.
Proof.
  intros v l1 l2 H12 H21.
  rewrite <- (all_and_incl_absorb v _ _ H21).
  rewrite k3_and_comm. apply all_and_incl_absorb; assumption.
Qed.

Lemma all_and_split : forall v (f : pred -> bool) l,
  all_and v l = k3_and (all_and v (filter f l)) (all_and v (filter (fun c => negb (f c)) l)).
Proof.
  induction l; simpl; [reflexivity|].
  rewrite IHl. destruct (f a); simpl.
  - rewrite k3_and_assoc; reflexivity.
  - rewrite !k3_and_assoc. f_equal. apply k3_and_comm.
Qed.

Lemma dedup_acc_In : forall l seen x, In x (dedup_acc seen l) <-> In x l /\ ~ In x seen.
Proof.
  induction l; intros seen x; simpl.
  - tauto.
  - destruct (mem a seen) eqn:E.
    + apply mem_In in E. rewrite IHl. split.
      * intros [H1 H2]; split; [right|]; assumption.
      * intros [[-> | H1] H2]; [contradiction | split; assumption].
    + apply mem_false_notIn in E. simpl. rewrite IHl. simpl. split.
      * intros [-> | [H1 H2]]; [split; [left; reflexivity | assumption]|].
        split; [right; assumption | intro; apply H2; right; assumption].
      * intros [[-> | H1] H2]; [left; reflexivity|].
        destruct (pred_eqb a x) eqn:Eq.
        -- apply pred_eqb_eq in Eq. left; assumption.
        -- right. split; [assumption|]. intros [-> | H3]; [|contradiction].
           rewrite pred_eqb_refl in Eq; discriminate.
Qed.

Lemma dedup_In : forall l x, In x (dedup l) <-> In x l.
Proof. intros. unfold dedup. rewrite dedup_acc_In. simpl. tauto. Qed.

Lemma all_and_dedup : forall v l, all_and v (dedup l) = all_and v l.
Proof.
  intros. apply all_and_set_eq; intros x H; apply dedup_In; assumption.
Qed.

Lemma all_and_mapping : forall v p, all_and v (mapping p) = eval v p.
Proof. intros. unfold mapping. rewrite all_and_dedup. symmetry; apply eval_comps_and. Qed.

(* ---------- (5) factoring the common conjuncts ---------- *)
Definition kept (repl comp : list pred) : list pred := filter (fun c => negb (mem c repl)) comp.

(* every or-component c = R /\ K, with K the conjunction of the kept conjuncts *)
Lemma comp_factor : forall v repl comp, incl repl comp ->
  all_and v comp = k3_and (all_and v repl) (all_and v (kept repl comp)).
Proof.
  intros v repl comp H.
  rewrite (all_and_split v (fun c => mem c repl) comp). unfold kept. f_equal.
  apply all_and_set_eq.
  - intros x Hx. apply filter_In in Hx. apply mem_In. apply Hx.
  - intros x Hx. apply filter_In. split; [apply H; assumption | apply mem_In; assumption].
Qed.

(* OR of the conjunctions of a list of components *)
Fixpoint or_comps (v : nat -> k3) (comps : list (list pred)) : k3 :=
  match comps with [] => KF | c :: r => k3_or (all_and v c) (or_comps v r) end.

Lemma or_comps_factor : forall v repl comps, Forall (incl repl) comps ->
  or_comps v comps = k3_and (all_and v repl) (or_comps v (map (kept repl) comps)).
Proof.
  induction comps; simpl; intros H.
  - rewrite k3_and_KF_r; reflexivity.
  - inversion H; subst. rewrite IHcomps by assumption.
    rewrite (comp_factor v _ _ H2). rewrite <- k3_and_or_distr. reflexivity.
Qed.

Lemma result_components_some : forall v repl comps r,
  result_components comps repl = Some r -> all_or v r = or_comps v (map (kept repl) comps).
Proof.
  induction comps; simpl; intros r H.
  - inversion H; reflexivity.
  - fold (kept repl a) in *. destruct (kept repl a) as [|k0 ks] eqn:E; [discriminate|].
    destruct (result_components comps repl) as [r'|]; [|discriminate].
    inversion H; subst. simpl. rewrite eval_conj. rewrite (IHcomps r' eq_refl). reflexivity.
Qed.

Lemma result_components_none : forall v repl comps,
  result_components comps repl = None -> Forall (incl repl) comps ->
  or_comps v comps = all_and v repl.
Proof.
  induction comps; simpl; intros H HF; [discriminate|].
  inversion HF; subst. fold (kept repl a) in *.
  rewrite (comp_factor v _ _ H2).
  destruct (kept repl a) as [|k0 ks] eqn:E.
  - simpl. rewrite k3_and_KT_r.
    rewrite (or_comps_factor v _ _ H3). apply k3_or_absorb.
  - destruct (result_components comps repl) as [r'|]; [discriminate|].
    rewrite IHcomps by (reflexivity || assumption).
    rewrite k3_or_comm. apply k3_or_absorb.
Qed.

Lemma or_comps_mapping : forall v l, or_comps v (map mapping l) = all_or v l.
Proof.
  induction l; simpl; [reflexivity|]. rewrite IHl, all_and_mapping; reflexivity.
Qed.

(* ---------- (6) replace_common and rewrite_filters ---------- *)
Lemma replace_common_sound : forall v first rest r,
  replace_common first rest = Some r -> eval v r = all_or v (first :: rest).
Proof.
  intros v first rest r. unfold replace_common.
  set (m := mapping first). set (ands := map mapping rest).
  destruct (filter (fun c => forallb (mem c) ands) m) as [|r0 rs] eqn:EF; [discriminate|].
  set (repl := r0 :: rs) in *.
  assert (HF : Forall (incl repl) (m :: ands)).
  { constructor.
    - intros x Hx. rewrite <- EF in Hx. apply filter_In in Hx. apply Hx.
    - apply Forall_forall. intros comp Hc x Hx. rewrite <- EF in Hx.
      apply filter_In in Hx. destruct Hx as [_ Hx].
      rewrite forallb_forall in Hx. apply mem_In. apply Hx; assumption. }
  assert (Hall : or_comps v (m :: ands) = all_or v (first :: rest)).
  { change (m :: ands) with (map mapping (first :: rest)). apply or_comps_mapping. }
  assert (Hout : eval v (conj r0 rs) = all_and v repl) by apply eval_conj.
  destruct (result_components (m :: ands) repl) as [[|c0 cs]|] eqn:ER; intros H; inversion H; subst r; clear H.
  - (* unreachable *) cbn [result_components] in ER. destruct (filter (fun c => negb (mem c repl)) m); [discriminate|].
    destruct (result_components ands repl); discriminate.
  - cbn [eval]. rewrite eval_disj, Hout.
    rewrite (result_components_some v _ _ _ ER).
    rewrite <- (or_comps_factor v _ _ HF). exact Hall.
  - rewrite Hout, <- Hall. symmetry. apply result_components_none; assumption.
Qed.

Theorem or_factoring_sound : forall (p : pred) (v : nat -> k3), eval v (rewrite_filters p) = eval v p.
Proof.
  intros p v. unfold rewrite_filters.
  destruct (comps_or p) as [|first rest] eqn:E; [reflexivity|].
  destruct rest as [|c2 rest]; [reflexivity|].
  destruct (replace_common first (c2 :: rest)) as [r|] eqn:ER; [|reflexivity].
  rewrite (replace_common_sound v _ _ _ ER), <- E. symmetry. apply eval_comps_or.
Qed.

Corollary or_factoring_keeps : forall p v, keeps v (rewrite_filters p) = keeps v p.
Proof. intros. unfold keeps. rewrite or_factoring_sound. reflexivity. Qed.

Corollary or_factoring_bool : forall p (b : nat -> bool),
  keeps (fun n => if b n then KT else KF) (rewrite_filters p) = keeps (fun n => if b n then KT else KF) p.
Proof. intros. apply or_factoring_keeps. Qed.

(* ---------- non-vacuity ---------- *)
Definition A := PAtom 0. Definition B := PAtom 1. Definition C := PAtom 2. Definition D := PAtom 3.

Example factoring_fires :
  rewrite_filters (POr (POr (PAnd A B) (PAnd A C)) (PAnd (PAnd A B) D))
  = PAnd A (POr (POr B C) (PAnd B D)).
Proof. vm_compute. reflexivity. Qed.

Example factoring_changes :
  pred_eqb (rewrite_filters (POr (POr (PAnd A B) (PAnd A C)) (PAnd (PAnd A B) D)))
           (POr (POr (PAnd A B) (PAnd A C)) (PAnd (PAnd A B) D)) = false.
Proof. vm_compute. reflexivity. Qed.

Example factoring_changes_neq :
  rewrite_filters (POr (POr (PAnd A B) (PAnd A C)) (PAnd (PAnd A B) D))
  <> POr (POr (PAnd A B) (PAnd A C)) (PAnd (PAnd A B) D).
Proof. vm_compute. discriminate. Qed.

Example absorbed_case : rewrite_filters (POr (PAnd A B) A) = A.
Proof. vm_compute. reflexivity. Qed.

Example no_common_unchanged : rewrite_filters (POr (PAnd A B) (PAnd C D)) = POr (PAnd A B) (PAnd C D).
Proof. vm_compute. reflexivity. Qed.

Print Assumptions or_factoring_keeps.
Print Assumptions or_factoring_bool.
Print Assumptions or_factoring_sound.
