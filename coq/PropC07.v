(* PropC07.v -- property C07: declared schema matches the computed data.  Statements only. *)
From DX Require Import Base Plan PlanProofs.

(* the static schema (container kind, column labels and their order) of every plan of the fragment is the
   schema of the value it computes, on every input *)
Theorem C07_schema_sound : forall rho e o, den rho e = Some o -> schema e = Some (kind_of o).
Proof. exact schema_sound. Qed.
Print Assumptions C07_schema_sound.

(* optimization never changes the declared schema: every accepted rewrite step keeps it, also inside a context *)
Theorem C07_optimization_keeps_schema : forall parent result, rule_ok parent result = true ->
  forall k, schema parent = Some k -> schema result = Some k.
Proof. exact rule_ok_schema. Qed.
Print Assumptions C07_optimization_keeps_schema.

Theorem C07_optimization_keeps_schema_in_context : forall a b e k, rule_ok a b = true ->
  schema e = Some k -> schema (subst a b e) = Some k.
Proof. intros a b e k H Hk. exact (step_in_context_schema a b H e k Hk). Qed.
Print Assumptions C07_optimization_keeps_schema_in_context.
