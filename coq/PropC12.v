(* PropC12.v -- property C12 (statements are filled in when ShuffleProofs.v lands). *)
From DX Require Import Base Shuffle.
Example task_layer_runs : length (sh_stages (task_layer 5 5 3 2 [0;2;3;4] true)) = 2.
Proof. reflexivity. Qed.
