(* PropC12.v -- property C12: a shuffle is a permutation that co-locates equal keys.
   Statements only (closed by [exact]); proofs live in ShuffleProofs.v. *)
From Coq Require Import Permutation.
From DX Require Import Base Shuffle ShuffleProofs.

(* single-stage shuffle: exact lists (rows ordered by input partition), any output subset *)
Theorem C12_simple_route : forall (payload : Type) (n_in n_out : nat) (sel : list nat) (filtered : bool) (Ps : list (list (row payload))),
  length Ps = n_in ->
  (forall p, In p sel -> p < n_out) ->
  (forall P r, In P Ps -> In r P -> target r < n_out) ->
  exec_shuffle (simple_layer n_in n_out sel filtered) Ps = Some (map (routed Ps) sel).
Proof. exact simple_route. Qed.
Print Assumptions C12_simple_route.

(* staged shuffle: EVERY n_in <= n_out, branch factor k >= 2, stage count with k^stages >= n_in,
   every requested output subset (duplicates, any order), with or without the regroup step *)
Theorem C12_staged_route : forall (payload : Type) (n_in n_out k stages : nat) (sel : list nat) (filtered : bool) (Ps : list (list (row payload))),
  length Ps = n_in -> 1 <= n_in -> n_in <= n_out -> 2 <= k -> n_in <= k ^ stages -> 1 <= stages ->
  (forall p, In p sel -> p < n_out) ->
  (forall P r, In P Ps -> In r P -> target r < n_out) ->
  exists outs, exec_shuffle (task_layer n_in n_out k stages sel filtered) Ps = Some outs /\
               length outs = length sel /\
               forall i, i < length sel -> Permutation (nth i outs []) (routed Ps (nth i sel 0)).
Proof. exact staged_route. Qed.
Print Assumptions C12_staged_route.

(* disk shuffle: whatever order the partition tasks ran in *)
Theorem C12_disk_route : forall (payload : Type) (sigma : list nat) (sel : list nat) (Ps : list (list (row payload))),
  Permutation sigma (seq 0 (length Ps)) ->
  forall i, i < length sel -> Permutation (nth i (exec_disk sigma Ps sel) []) (routed Ps (nth i sel 0)).
Proof. exact disk_route. Qed.
Print Assumptions C12_disk_route.

(* the whole shuffle is a permutation of its input, and partition i holds only rows routed to i *)
Theorem C12_shuffle_permutation : forall (payload : Type) (n_in n_out k stages : nat) (Ps : list (list (row payload))) outs,
  length Ps = n_in -> 1 <= n_in -> n_in <= n_out -> 2 <= k -> n_in <= k ^ stages -> 1 <= stages ->
  (forall P r, In P Ps -> In r P -> target r < n_out) ->
  exec_shuffle (task_layer n_in n_out k stages (seq 0 n_out) false) Ps = Some outs ->
  Permutation (concat outs) (concat Ps) /\ (forall i r, i < n_out -> In r (nth i outs []) -> target r = i).
Proof. exact shuffle_permutation. Qed.
Print Assumptions C12_shuffle_permutation.
