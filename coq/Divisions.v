(* Divisions.v -- executable model of the "divisions" bookkeeping of dask-expr
   (Partitions / RepartitionToFewer / FusedIO / Head / Tail / Concat axis=0).
   Definitions only; the theorems live in DivisionsProofs.v.
   Stdlib only, no axioms.  Index values are Z, partition numbers are nat. *)
From DX Require Import Base.

(* ------------------------------------------------------------------ *)
(* Semantics: what it means for a divisions vector to be truthful       *)
(* ------------------------------------------------------------------ *)

(* divs : d_0 .. d_n   (n+1 entries) ; parts : the index values held by each of the n partitions.
   - length divs = length parts + 1
   - divs non-decreasing
   - every x in partition i has d_i <= x, and x < d_{i+1}; for the LAST partition x <= d_{i+1}. *)
Definition sortedZ (l : list Z) : Prop :=
  forall i, S i < length l -> (nth i l 0 <= nth (S i) l 0)%Z.

Definition row_ok (divs : list Z) (nparts i : nat) (x : Z) : Prop :=
  (nth i divs 0 <= x)%Z /\
  ((x < nth (S i) divs 0)%Z \/ (S i = nparts /\ (x <= nth (S i) divs 0)%Z)).

Definition truthful (divs : list Z) (parts : list (list Z)) : Prop :=
  length divs = length parts + 1 /\
  sortedZ divs /\
  (forall i x, i < length parts -> In x (nth i parts []) -> row_ok divs (length parts) i x).

(* executable mirror of the three clauses *)
Definition sortedZb (l : list Z) : bool :=
  forallb (fun i => (nth i l 0 <=? nth (S i) l 0)%Z) (seq 0 (length l - 1)).

Definition row_okb (divs : list Z) (nparts i : nat) (x : Z) : bool :=
  (nth i divs 0 <=? x)%Z &&
  ((x <? nth (S i) divs 0)%Z || ((S i =? nparts) && (x <=? nth (S i) divs 0)%Z)).

Definition truthfulb (divs : list Z) (parts : list (list Z)) : bool :=
  (length divs =? length parts + 1) &&
  sortedZb divs &&
  forallb (fun i => forallb (row_okb divs (length parts) i) (nth i parts []))
          (seq 0 (length parts)).

(* ------------------------------------------------------------------ *)
(* Small helpers                                                        *)
(* ------------------------------------------------------------------ *)

(* strictly increasing list of partition numbers (adjacent <) *)
Fixpoint strictly_increasingb (l : list nat) : bool :=
  match l with
  | a :: ((b :: _) as r) => (a <? b) && strictly_increasingb r
  | _ => true
  end.

(* non-decreasing list of partition numbers (adjacent <=) *)
Fixpoint nondecreasingb (l : list nat) : bool :=
  match l with
  | a :: ((b :: _) as r) => (a <=? b) && nondecreasingb r
  | _ => true
  end.

(* rows of the input partitions a, a+1, ..., b-1 glued together : concat(parts[a:b]) *)
Definition range_rows (parts : list (list Z)) (a b : nat) : list Z :=
  concat (map (fun i => nth i parts []) (seq a (b - a))).

(* rows of the listed input partitions glued together : concat(parts[p] for p in g) *)
Definition group_rows (parts : list (list Z)) (g : list nat) : list Z :=
  concat (map (fun p => nth p parts []) g).

(* ------------------------------------------------------------------ *)
(* Partitions._divisions / PartitionsFiltered.divisions                 *)
(* ------------------------------------------------------------------ *)

(* the raw formula  [divs[p] for p in sel] + [divs[sel[-1] + 1]]  (what the UNFIXED code returned always) *)
Definition partitions_divisions_old (divs : list Z) (sel : list nat) : list Z :=
  map (fun p => nth p divs 0%Z) sel ++ [nth (S (last sel 0)) divs 0%Z].

(* FIXED: unknown (None) unless sel is strictly increasing *)
Definition partitions_divisions (divs : list Z) (sel : list nat) : option (list Z) :=
  if strictly_increasingb sel then Some (partitions_divisions_old divs sel) else None.

(* the computed partitions of the selection: [parts[p] for p in sel] *)
Definition select_parts (parts : list (list Z)) (sel : list nat) : list (list Z) :=
  map (fun p => nth p parts []) sel.

(* ------------------------------------------------------------------ *)
(* RepartitionToFewer._divisions                                        *)
(* ------------------------------------------------------------------ *)

Definition fewer_divisions (divs : list Z) (bs : list nat) : list Z :=
  map (fun b => nth b divs 0%Z) bs.

(* output j = concat(parts[bs_j : bs_{j+1}]) ; one output per adjacent pair of boundaries *)
Fixpoint fewer_parts (parts : list (list Z)) (bs : list nat) : list (list Z) :=
  match bs with
  | a :: ((b :: _) as r) => range_rows parts a b :: fewer_parts parts r
  | _ => []
  end.

(* boundaries 0 = bs_0 <= bs_1 <= ... <= bs_m = n with m >= 1 *)
Definition chainb (bs : list nat) (n : nat) : bool :=
  (2 <=? length bs) && (hd 0 bs =? 0) && (last bs 0 =? n) && nondecreasingb bs.

(* every interior boundary bs_1 .. bs_{m-1} is < n: no output other than the last one
   reaches the (right-closed) last input partition; equivalently (for a chain) bs_{m-1} < bs_m,
   i.e. there is no trailing empty output partition. *)
Definition interior_belowb (bs : list nat) (n : nat) : bool :=
  forallb (fun j => nth j bs 0 <? n) (seq 1 (length bs - 2)).

(* ------------------------------------------------------------------ *)
(* FusedIO                                                              *)
(* ------------------------------------------------------------------ *)

(* [parts_sel[i:i+step] for i in range(0, len(parts_sel), step)] *)
Definition fusion_buckets (parts_sel : list nat) (step : nat) : list (list nat) :=
  part_all step parts_sel.

(* FIXED formula: last entry is divs[buckets[-1][-1] + 1] *)
Definition fused_divisions (divs : list Z) (buckets : list (list nat)) : list Z :=
  map (fun b => nth (hd 0 b) divs 0%Z) buckets ++ [nth (S (last (last buckets []) 0)) divs 0%Z].

(* UNFIXED formula (defect D8): last entry is the partition NUMBER buckets[-1][-1] itself *)
Definition fused_divisions_old (divs : list Z) (buckets : list (list nat)) : list Z :=
  map (fun b => nth (hd 0 b) divs 0%Z) buckets ++ [Z.of_nat (last (last buckets []) 0)].

(* a second plausible wrong variant: divs[buckets[-1][-1]] (forgetting the + 1) *)
Definition fused_divisions_noplus1 (divs : list Z) (buckets : list (list nat)) : list Z :=
  map (fun b => nth (hd 0 b) divs 0%Z) buckets ++ [nth (last (last buckets []) 0) divs 0%Z].

(* output partition j of the fused read = concat(parts[p] for p in buckets[j]) *)
Definition fused_parts (parts : list (list Z)) (buckets : list (list nat)) : list (list Z) :=
  map (group_rows parts) buckets.

(* ------------------------------------------------------------------ *)
(* Head / Tail                                                          *)
(* ------------------------------------------------------------------ *)

(* BlockwiseHead over the first k partitions: divisions divs[:k+1], each partition keeps its first nrows rows *)
Definition bhead_divisions (divs : list Z) (k : nat) : list Z := firstn (k + 1) divs.
Definition bhead_parts (parts : list (list Z)) (k nrows : nat) : list (list Z) :=
  map (firstn nrows) (firstn k parts).

(* Head(n, npartitions=k): one partition, divisions (divs[0], divs[k]); first nrows rows of the first k partitions *)
Definition head_divisions (divs : list Z) (k : nat) : list Z := [nth 0 divs 0%Z; nth k divs 0%Z].
Definition head_parts (parts : list (list Z)) (k nrows : nat) : list (list Z) :=
  [firstn nrows (concat (firstn k parts))].

(* Tail: one partition, divisions (divs[n-1], divs[n]); last nrows rows of the last partition *)
Definition tail_divisions (divs : list Z) : list Z :=
  [nth (length divs - 2) divs 0%Z; nth (length divs - 1) divs 0%Z].
Definition tail_parts (parts : list (list Z)) (nrows : nat) : list (list Z) :=
  let p := last parts [] in [skipn (length p - nrows) p].

(* ------------------------------------------------------------------ *)
(* Concat axis=0 of frames with known, strictly separated divisions      *)
(* ------------------------------------------------------------------ *)

(* two frames: allowed only when last(A) < first(B) (STRICT); result = A without its last entry ++ B *)
Definition concat_divisions2 (A B : list Z) : option (list Z) :=
  if (last A 0 <? hd 0 B)%Z then Some (removelast A ++ B) else None.

(* the WRONG variant that also accepts touching frames  last(A) = first(B) *)
Definition concat_divisions2_touching (A B : list Z) : option (list Z) :=
  if (last A 0 <=? hd 0 B)%Z then Some (removelast A ++ B) else None.

(* n frames: every consecutive pair strictly separated; result = concat(A_i[:-1] for i < last) ++ A_last *)
Fixpoint separatedb (ds : list (list Z)) : bool :=
  match ds with
  | A :: ((B :: _) as r) => (last A 0 <? hd 0 B)%Z && separatedb r
  | _ => true
  end.

Fixpoint join_divisions (ds : list (list Z)) : list Z :=
  match ds with
  | [] => []
  | [A] => A
  | A :: r => removelast A ++ join_divisions r
  end.

Definition concat_divisions (ds : list (list Z)) : option (list Z) :=
  match ds with
  | [] => None
  | _ => if separatedb ds then Some (join_divisions ds) else None
  end.

(* the rows: partitions of all frames in order *)
Definition concat_parts (pss : list (list (list Z))) : list (list Z) := concat pss.
