(* SourceChecks.v -- the definitions translated from the Python source (GeneratedSource.v) equal the hand-written
   model (Divisions.v), and the truthfulness theorems of DivisionsProofs.v restated for the translated source.
   Stdlib only, no axioms. *)
From DX Require Import Base Divisions DivisionsProofs PySeq GeneratedSource.
From Coq Require Import ZifyBool.

(* PySeq.v and GeneratedSource.v leave Z_scope open for their importers; the statements below are written with
   nat as the default reading (`p < length parts`, `1 <= step`, ...) and explicit %Z where Z is meant. *)
Local Open Scope nat_scope.

Definition zs (l : list nat) : list Z := map Z.of_nat l.

(* ------------------------------------------------------------------ *)
(* helpers                                                              *)
(* ------------------------------------------------------------------ *)

Lemma zs_length : forall l, length (zs l) = length l.
Proof. intros. unfold zs. apply map_length. Qed.

Lemma py_len_zs : forall l, py_len (zs l) = Z.of_nat (length l).
Proof. intros. unfold py_len. rewrite zs_length. reflexivity. Qed.

(* l[-1] = last l d, also for the empty list (both sides are the default) *)
Lemma py_index_m1_last : forall (A : Type) (d : A) (l : list A), py_index d l (-1)%Z = last l d.
Proof.
  intros A d l. destruct l as [|a l]; [reflexivity|].
  change (-1)%Z with (- Z.of_nat 1)%Z. rewrite py_index_neg.
  - symmetry. apply last_nth_len.
  - simpl. lia.
Qed.

Lemma py_index_0_hd : forall (A : Type) (d : A) (l : list A), py_index d l 0%Z = hd d l.
Proof. intros A d l. change 0%Z with (Z.of_nat 0). rewrite py_index_nat. destruct l; reflexivity. Qed.

Lemma py_index_0_nth : forall (A : Type) (d : A) (l : list A), py_index d l 0%Z = nth 0 l d.
Proof. intros A d l. change 0%Z with (Z.of_nat 0). apply py_index_nat. Qed.

Lemma py_index_succ : forall (A : Type) (d : A) (l : list A) (n : nat),
  py_index d l (Z.of_nat n + 1)%Z = nth (S n) l d.
Proof. intros. replace (Z.of_nat n + 1)%Z with (Z.of_nat (S n)) by lia. apply py_index_nat. Qed.

Lemma last_map_gen : forall (A B : Type) (f : A -> B) (l : list A) (d : A),
  last (map f l) (f d) = f (last l d).
Proof.
  intros A B f l d. induction l as [|a l IH]; [reflexivity|].
  destruct l as [|b l]; [reflexivity|].
  change (last (map f (a :: b :: l)) (f d)) with (last (map f (b :: l)) (f d)).
  rewrite IH. reflexivity.
Qed.

Lemma last_zs : forall l, last (zs l) 0%Z = Z.of_nat (last l 0).
Proof. intros. unfold zs. change 0%Z with (Z.of_nat 0). apply last_map_gen. Qed.

Lemma hd_zs : forall l, hd 0%Z (zs l) = Z.of_nat (hd 0 l).
Proof. intros. destruct l; reflexivity. Qed.

Lemma last_map_zs : forall bs : list (list nat), last (map zs bs) [] = zs (last bs []).
Proof. intros. change (@nil Z) with (zs []). apply last_map_gen. Qed.

Lemma ltb_nat_Z : forall a b : nat, (Z.of_nat a <? Z.of_nat b)%Z = (a <? b).
Proof. intros a b. destruct (Z.ltb_spec (Z.of_nat a) (Z.of_nat b)), (Nat.ltb_spec a b); try reflexivity; lia. Qed.

Lemma forallb_map_gen : forall (A B : Type) (f : B -> bool) (g : A -> B) (l : list A),
  forallb f (map g l) = forallb (fun x => f (g x)) l.
Proof. intros. induction l as [|a l IH]; [reflexivity|]. simpl. rewrite IH. reflexivity. Qed.

Lemma forallb_ext_gen : forall (A : Type) (f g : A -> bool) (l : list A),
  (forall x, f x = g x) -> forallb f l = forallb g l.
Proof. intros A f g l H. induction l as [|a l IH]; [reflexivity|]. simpl. rewrite H, IH. reflexivity. Qed.

Lemma skipn_last2 : forall (n : nat) (l : list Z),
  length l = n + 2 -> skipn n l = [nth n l 0%Z; nth (n + 1) l 0%Z].
Proof.
  induction n as [|n IH]; intros l H.
  - destruct l as [|x [|y [|z l]]]; simpl in H; try lia. reflexivity.
  - destruct l as [|x l]; simpl in H; [lia|].
    simpl. apply IH. lia.
Qed.

(* Z.opp applied to a literal, as the translator writes it, is the negative literal *)
Ltac norm_neg :=
  change (Z.opp (Zpos xH)) with (Zneg xH) in *;
  change (Z.opp (Zpos (xO xH))) with (Zneg (xO xH)) in *.

(* ------------------------------------------------------------------ *)
(* each translated method body equals the model                         *)
(* ------------------------------------------------------------------ *)

Lemma sinc_aux : forall (sel : list nat) (a : nat),
  forallb (fun '(x, y) => (x <? y)%Z) (combine (zs (a :: sel)) (zs sel)) = strictly_increasingb (a :: sel).
Proof.
  induction sel as [|b sel IH]; intros a; [reflexivity|].
  change (strictly_increasingb (a :: b :: sel)) with ((a <? b) && strictly_increasingb (b :: sel)).
  rewrite <- IH.
  change (zs (a :: b :: sel)) with (Z.of_nat a :: zs (b :: sel)).
  change (combine (Z.of_nat a :: zs (b :: sel)) (zs (b :: sel)))
    with ((Z.of_nat a, Z.of_nat b) :: combine (zs (b :: sel)) (zs sel)).
  cbn [forallb]. rewrite ltb_nat_Z. reflexivity.
Qed.

Lemma src_is_strictly_increasing_ok : forall sel : list nat,
  src_is_strictly_increasing (zs sel) = strictly_increasingb sel.
Proof.
  intros sel. unfold src_is_strictly_increasing. cbv zeta.
  change (Some 1%Z) with (Some (Z.of_nat 1)). rewrite py_slice_from.
  destruct sel as [|a sel]; [reflexivity|].
  change (skipn 1 (zs (a :: sel))) with (zs sel).
  apply sinc_aux.
Qed.

Lemma src_Tail_ok : forall divs : list Z, (2 <= length divs)%nat ->
  src_Tail_divisions divs = tail_divisions divs.
Proof.
  intros divs H. unfold src_Tail_divisions, tail_divisions.
  change (- (2))%Z with (- Z.of_nat 2)%Z. rewrite py_slice_from_end by lia.
  rewrite (skipn_last2 (length divs - 2) divs) by lia.
  replace (length divs - 2 + 1) with (length divs - 1) by lia. reflexivity.
Qed.

Lemma src_BlockwiseHead_ok : forall (divs parts : list Z),
  src_BlockwiseHead_divisions divs parts = bhead_divisions divs (length parts).
Proof.
  intros divs parts. unfold src_BlockwiseHead_divisions, bhead_divisions.
  replace (py_len parts + 1)%Z with (Z.of_nat (length parts + 1)) by (unfold py_len; lia).
  apply py_slice_to.
Qed.

Lemma src_Head_ok : forall (divs : list Z) (k : nat),
  src_Head_divisions divs (Z.of_nat k) = head_divisions divs k.
Proof.
  intros divs k. unfold src_Head_divisions, head_divisions.
  destruct (Z.leb_spec (Z.of_nat k) (- (1))%Z) as [H|H]; [lia|].
  rewrite py_index_0_nth, py_index_nat. reflexivity.
Qed.

(* npartitions = -1 means "all partitions" *)
Lemma src_Head_all_ok : forall (divs : list Z) (k : Z), (k <= -1)%Z -> divs <> [] ->
  src_Head_divisions divs k = head_divisions divs (length divs - 1).
Proof.
  intros divs k Hk Hne. unfold src_Head_divisions, head_divisions.
  destruct (Z.leb_spec k (- (1))%Z) as [H|H]; [|lia].
  norm_neg. rewrite py_index_0_nth, py_index_m1_last, last_nth_len. reflexivity.
Qed.

Lemma src_Fewer_ok : forall (divs : list Z) (bs : list nat),
  src_RepartitionToFewer_divisions divs (zs bs) = fewer_divisions divs bs.
Proof.
  intros divs bs. unfold src_RepartitionToFewer_divisions, fewer_divisions, zs.
  rewrite map_map. apply map_ext. intros b. apply py_index_nat.
Qed.

Definition of_model (n : nat) (o : option (list Z)) : pydivs :=
  match o with Some d => Known d | None => Unknown (Z.of_nat n + 1) end.

(* the raw formula [divs[p] for p in sel] + [divs[sel[-1] + 1]] *)
Lemma partitions_raw_ok : forall (divs : list Z) (sel : list nat),
  map (fun p => py_index 0%Z divs p) (zs sel) ++ [py_index 0%Z divs (last (zs sel) 0%Z + 1)%Z]
  = partitions_divisions_old divs sel.
Proof.
  intros divs sel. unfold partitions_divisions_old. f_equal.
  - unfold zs. rewrite map_map. apply map_ext. intros p. apply py_index_nat.
  - rewrite last_zs, py_index_succ. reflexivity.
Qed.

Lemma src_Partitions_ok : forall (divs : list Z) (sel : list nat),
  src_Partitions_divisions divs (zs sel) = of_model (length sel) (partitions_divisions divs sel).
Proof.
  intros divs sel. unfold src_Partitions_divisions, partitions_divisions.
  rewrite src_is_strictly_increasing_ok.
  destruct (strictly_increasingb sel); cbn [negb]; cbv iota zeta.
  - cbn [app]. rewrite partitions_raw_ok. reflexivity.
  - rewrite py_len_zs. reflexivity.
Qed.

Lemma src_PartitionsFiltered_ok : forall (full : list Z) (filtered : bool) (sel : list nat),
  src_PartitionsFiltered_divisions full filtered (zs sel) =
  if filtered then of_model (length sel) (partitions_divisions full sel) else Known full.
Proof.
  intros full filtered sel. unfold src_PartitionsFiltered_divisions, partitions_divisions. cbv zeta.
  destruct filtered; cbn [negb]; cbv iota; [|reflexivity].
  rewrite src_is_strictly_increasing_ok.
  destruct (strictly_increasingb sel); cbn [negb]; cbv iota.
  - cbn [app]. rewrite partitions_raw_ok. reflexivity.
  - rewrite py_len_zs. reflexivity.
Qed.

(* `seldivs` are the (known) divisions of the partition selection of the wrapped read; the unknown case returns (None,) * n
   before reaching the formula, and is outside the domain of known integer divisions modelled here *)
Lemma src_FusedIO_ok : forall (divs seldivs : list Z) (buckets : list (list nat)),
  src_FusedIO_divisions divs seldivs (map zs buckets) = Known (fused_divisions divs buckets).
Proof.
  intros divs seldivs buckets. unfold src_FusedIO_divisions, fused_divisions. cbv zeta.
  unfold py_is_none_Z. cbv iota. norm_neg. f_equal. f_equal.
  - rewrite map_map. apply map_ext. intros b.
    rewrite py_index_0_hd, hd_zs. apply py_index_nat.
  - rewrite !py_index_m1_last, last_map_zs, last_zs, py_index_succ. reflexivity.
Qed.

Lemma sep_aux : forall dfs : list (list Z),
  forallb (fun i => (last (nth i dfs []) 0 <? hd 0 (nth (S i) dfs []))%Z) (seq 0 (length dfs - 1)) = separatedb dfs.
Proof.
  induction dfs as [|A r IH]; [reflexivity|].
  destruct r as [|B r]; [reflexivity|].
  change (separatedb (A :: B :: r)) with ((last A 0 <? hd 0 B)%Z && separatedb (B :: r)).
  rewrite <- IH.
  replace (length (A :: B :: r) - 1) with (S (length (B :: r) - 1)) by (simpl; lia).
  rewrite <- cons_seq, <- seq_shift. cbn [forallb]. rewrite forallb_map_gen. reflexivity.
Qed.

Lemma src_Concat_monotonic_ok : forall dfs : list (list Z),
  src_Concat_monotonic_divisions dfs true = separatedb dfs.
Proof.
  intros dfs. unfold src_Concat_monotonic_divisions. cbv zeta iota. norm_neg.
  unfold py_range. replace (Z.to_nat (py_len dfs - 1)) with (length dfs - 1) by (unfold py_len; lia).
  rewrite forallb_map_gen, <- sep_aux. apply forallb_ext_gen. intros i.
  rewrite py_index_nat, py_index_succ, py_index_m1_last, py_index_0_hd. reflexivity.
Qed.

Lemma src_Concat_monotonic_unknown : forall dfs, src_Concat_monotonic_divisions dfs false = false.
Proof. intros. reflexivity. Qed.

(* holds for every dfs, the empty list included (both sides are []) *)
Lemma src_Concat_divisions_all : forall dfs : list (list Z),
  src_Concat_divisions_monotonic dfs = join_divisions dfs.
Proof.
  intros dfs. unfold src_Concat_divisions_monotonic. cbv zeta. cbn [app]. norm_neg.
  rewrite py_slice_drop_last, py_index_m1_last.
  rewrite (flat_map_ext _ (@removelast Z) (fun df => py_slice_drop_last Z df)).
  induction dfs as [|A r IH]; [reflexivity|].
  destruct r as [|B r]; [reflexivity|].
  change (removelast (A :: B :: r)) with (A :: removelast (B :: r)).
  change (last (A :: B :: r) []) with (last (B :: r) (@nil Z)).
  change (join_divisions (A :: B :: r)) with (removelast A ++ join_divisions (B :: r)).
  cbn [flat_map]. rewrite <- app_assoc, IH. reflexivity.
Qed.

Lemma src_Concat_divisions_ok : forall dfs : list (list Z), dfs <> [] ->
  src_Concat_divisions_monotonic dfs = join_divisions dfs.
Proof. intros dfs _. apply src_Concat_divisions_all. Qed.

(* ------------------------------------------------------------------ *)
(* the truthfulness theorems, restated for the translated source        *)
(* ------------------------------------------------------------------ *)

Theorem src_partitions_truthful : forall divs parts (sel : list nat) d',
  truthful divs parts -> (forall p, In p sel -> p < length parts) -> sel <> [] ->
  src_Partitions_divisions divs (zs sel) = Known d' -> truthful d' (select_parts parts sel).
Proof.
  intros divs parts sel d' Ht Hin Hne H. rewrite src_Partitions_ok in H.
  destruct (partitions_divisions divs sel) as [d|] eqn:E; simpl in H; [|discriminate].
  injection H as <-. eapply partitions_truthful; eauto.
Qed.

Theorem src_partitions_filtered_truthful : forall full parts (sel : list nat) d',
  truthful full parts -> (forall p, In p sel -> p < length parts) -> sel <> [] ->
  src_PartitionsFiltered_divisions full true (zs sel) = Known d' -> truthful d' (select_parts parts sel).
Proof.
  intros full parts sel d' Ht Hin Hne H. rewrite src_PartitionsFiltered_ok in H.
  destruct (partitions_divisions full sel) as [d|] eqn:E; simpl in H; [|discriminate].
  injection H as <-. eapply partitions_truthful; eauto.
Qed.

Theorem src_partitions_unknown_count : forall divs (sel : list nat) n,
  src_Partitions_divisions divs (zs sel) = Unknown n -> n = (Z.of_nat (length sel) + 1)%Z.
Proof.
  intros divs sel n H. rewrite src_Partitions_ok in H.
  destruct (partitions_divisions divs sel) as [d|]; simpl in H; [discriminate|].
  injection H as <-. reflexivity.
Qed.

Theorem src_fused_truthful : forall divs seldivs parts parts_sel step d,
  truthful divs parts -> strictly_increasingb parts_sel = true ->
  (forall p, In p parts_sel -> p < length parts) -> 1 <= step -> parts_sel <> [] ->
  src_FusedIO_divisions divs seldivs (map zs (fusion_buckets parts_sel step)) = Known d ->
  truthful d (fused_parts parts (fusion_buckets parts_sel step)).
Proof. intros divs seldivs parts parts_sel step d Ht Hs Hb H1 Hne H. rewrite src_FusedIO_ok in H. inversion H; subst. apply fused_truthful; assumption. Qed.

Theorem src_fewer_truthful : forall divs parts bs,
  truthful divs parts -> chain bs (length parts) -> interior_below bs (length parts) ->
  truthful (src_RepartitionToFewer_divisions divs (zs bs)) (fewer_parts parts bs).
Proof. intros. rewrite src_Fewer_ok. apply fewer_truthful; assumption. Qed.

Theorem src_head_truthful : forall divs parts k nrows,
  truthful divs parts -> k <= length parts ->
  truthful (src_Head_divisions divs (Z.of_nat k)) (head_parts parts k nrows).
Proof. intros. rewrite src_Head_ok. apply head_truthful; assumption. Qed.

Theorem src_blockwise_head_truthful : forall divs parts (sel : list Z) nrows,
  truthful divs parts -> length sel <= length parts ->
  truthful (src_BlockwiseHead_divisions divs sel) (bhead_parts parts (length sel) nrows).
Proof. intros. rewrite src_BlockwiseHead_ok. apply bhead_truthful; assumption. Qed.

Theorem src_tail_truthful : forall divs parts nrows,
  truthful divs parts -> parts <> [] ->
  truthful (src_Tail_divisions divs) (tail_parts parts nrows).
Proof.
  intros divs parts nrows Ht Hne. rewrite src_Tail_ok.
  - apply tail_truthful; assumption.
  - destruct Ht as (Hlen & _). destruct parts; [congruence|]. simpl in Hlen. lia.
Qed.

Theorem src_concat_truthful : forall ds pss,
  Forall2 truthful ds pss -> ds <> [] ->
  src_Concat_monotonic_divisions ds true = true ->
  truthful (src_Concat_divisions_monotonic ds) (concat_parts pss).
Proof.
  intros ds pss HF Hne Hm. rewrite src_Concat_monotonic_ok in Hm.
  rewrite src_Concat_divisions_ok by assumption.
  apply concat_truthful_n with (ds := ds); [assumption|].
  unfold concat_divisions. destruct ds; [congruence|]. rewrite Hm. reflexivity.
Qed.

Print Assumptions src_is_strictly_increasing_ok.
Print Assumptions src_Tail_ok.
Print Assumptions src_BlockwiseHead_ok.
Print Assumptions src_Head_ok.
Print Assumptions src_Head_all_ok.
Print Assumptions src_Fewer_ok.
Print Assumptions src_Partitions_ok.
Print Assumptions src_PartitionsFiltered_ok.
Print Assumptions src_FusedIO_ok.
Print Assumptions src_Concat_monotonic_ok.
Print Assumptions src_Concat_monotonic_unknown.
Print Assumptions src_Concat_divisions_ok.
Print Assumptions src_partitions_truthful.
Print Assumptions src_partitions_filtered_truthful.
Print Assumptions src_partitions_unknown_count.
Print Assumptions src_fused_truthful.
Print Assumptions src_fewer_truthful.
Print Assumptions src_head_truthful.
Print Assumptions src_blockwise_head_truthful.
Print Assumptions src_tail_truthful.
Print Assumptions src_concat_truthful.
