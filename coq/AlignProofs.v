(* AlignProofs.v -- theorems about Align.v (alignment of collections with known divisions).
   Stdlib + DX model files only; no axioms. *)
From DX Require Import Base Repart RepartProofs Divisions DivisionsProofs Align.
From Coq Require Import Lia ZArith List Bool Arith Permutation ZifyBool.
Import ListNotations.
Open Scope Z_scope.

(* ========================================================================================== *)
(* 0. generic facts about Repart.sortedZ (adjacent <=)                                         *)
(* ========================================================================================== *)

Lemma sorted_cons_iff : forall x l,
  Repart.sortedZ (x :: l) <-> (forall y, In y l -> x <= y) /\ Repart.sortedZ l.
Proof.
  intros x l. split.
  - intros H. split; [apply (sortedZ_head l x H)|]. destruct H as [_ H]. exact H.
  - intros [H1 H2]. destruct l as [|y l].
    + split; exact I.
    + split; [apply H1; left; reflexivity | exact H2].
Qed.

Lemma sorted_nth_le : forall l, Repart.sortedZ l ->
  forall i j, (i <= j)%nat -> (j < length l)%nat -> nthZ l i <= nthZ l j.
Proof.
  induction l as [|x l IH]; intros Hs i j Hij Hj; [cbn in Hj; lia|].
  apply sorted_cons_iff in Hs. destruct Hs as [H1 H2].
  destruct j as [|j].
  - assert (i = 0)%nat by lia. subst. lia.
  - cbn [length] in Hj. destruct i as [|i].
    + unfold nthZ. cbn [nth]. apply H1. apply nth_In. lia.
    + unfold nthZ. cbn [nth]. apply (IH H2 i j); lia.
Qed.

(* bridge between the two notions of sortedness *)
Lemma sortedZ_bridge : forall l, Repart.sortedZ l <-> Divisions.sortedZ l.
Proof.
  intros l. split.
  - intros Hs i Hi. pose proof (sorted_nth_le l Hs i (S i) ltac:(lia) Hi) as H. unfold nthZ in H. exact H.
  - induction l as [|x l IH]; intros H; [exact I|].
    split.
    + destruct l as [|y l]; [exact I|]. apply (H 0%nat). cbn [length]. lia.
    + apply IH. intros i Hi. apply (H (S i)). cbn [length]. lia.
Qed.

Lemma strict_sorted : forall l, strict_incr l = true -> Repart.sortedZ l.
Proof.
  induction l as [|x l IH]; intros H; [exact I|].
  cbn [strict_incr] in H. apply andb_true_iff in H. destruct H as [H1 H2].
  split; [|apply IH, H2]. destruct l as [|y l]; [exact I|]. apply Z.ltb_lt in H1. lia.
Qed.

Lemma strict_cons : forall x l,
  (forall y, In y l -> x < y) -> strict_incr l = true -> strict_incr (x :: l) = true.
Proof.
  intros x l H Hs. cbn [strict_incr]. rewrite Hs, andb_true_r.
  destruct l as [|y l]; [reflexivity|]. apply Z.ltb_lt, H. left. reflexivity.
Qed.

Lemma sorted_first_le : forall l y, Repart.sortedZ l -> In y l -> nthZ l 0 <= y.
Proof.
  intros l y Hs Hy. destruct (In_nth l y 0 Hy) as [i [Hi E]]. rewrite <- E.
  apply (sorted_nth_le l Hs 0 i); lia.
Qed.

Lemma sorted_le_last : forall l y, Repart.sortedZ l -> In y l -> y <= lastZ l.
Proof.
  intros l y Hs Hy. destruct (In_nth l y 0 Hy) as [i [Hi E]]. rewrite <- E, lastZ_nth.
  apply (sorted_nth_le l Hs i (length l - 1)); lia.
Qed.

Lemma first_In : forall l, l <> [] -> In (nthZ l 0) l.
Proof. intros [|x l] H; [congruence|]. left. reflexivity. Qed.

Lemma lastZ_In : forall l, l <> [] -> In (lastZ l) l.
Proof.
  intros l H. rewrite lastZ_nth. apply nth_In. destruct l; [congruence|]. cbn [length]. lia.
Qed.

(* ========================================================================================== *)
(* 1. merge_sorted                                                                             *)
(* ========================================================================================== *)

Lemma merge2_nil_l : forall b, merge2 [] b = b.
Proof. destruct b; reflexivity. Qed.
Lemma merge2_nil_r : forall a, merge2 a [] = a.
Proof. destruct a; reflexivity. Qed.
Lemma merge2_cons : forall x a y b,
  merge2 (x :: a) (y :: b) = if y <? x then y :: merge2 (x :: a) b else x :: merge2 a (y :: b).
Proof. reflexivity. Qed.

Lemma merge2_perm : forall a b, Permutation (merge2 a b) (a ++ b).
Proof.
  induction a as [|x a IHa]; intros b.
  - rewrite merge2_nil_l. apply Permutation_refl.
  - induction b as [|y b IHb].
    + rewrite merge2_nil_r, app_nil_r. apply Permutation_refl.
    + rewrite merge2_cons. destruct (y <? x).
      * eapply Permutation_trans; [apply perm_skip, IHb|].
        apply (Permutation_middle (x :: a) b y).
      * cbn [app]. apply perm_skip. apply IHa.
Qed.

Lemma merge2_sorted : forall a b,
  Repart.sortedZ a -> Repart.sortedZ b -> Repart.sortedZ (merge2 a b).
Proof.
  induction a as [|x a IHa]; intros b Ha Hb.
  - rewrite merge2_nil_l. exact Hb.
  - induction b as [|y b IHb].
    + rewrite merge2_nil_r. exact Ha.
    + rewrite merge2_cons.
      pose proof (proj1 (sorted_cons_iff _ _) Ha) as [Ha1 Ha2].
      pose proof (proj1 (sorted_cons_iff _ _) Hb) as [Hb1 Hb2].
      destruct (Z.ltb_spec y x) as [Hlt|Hge].
      * apply sorted_cons_iff. split; [|apply IHb; exact Hb2].
        intros z Hz. apply (Permutation_in _ (merge2_perm (x :: a) b)) in Hz.
        apply in_app_iff in Hz. destruct Hz as [[<-|Hz]|Hz].
        -- lia.
        -- specialize (Ha1 z Hz). lia.
        -- apply Hb1, Hz.
      * apply sorted_cons_iff. split; [|apply IHa; assumption].
        intros z Hz. apply (Permutation_in _ (merge2_perm a (y :: b))) in Hz.
        apply in_app_iff in Hz. destruct Hz as [Hz|[<-|Hz]].
        -- apply Ha1, Hz.
        -- lia.
        -- specialize (Hb1 z Hz). lia.
Qed.

Theorem merge_sorted_perm : forall ds, Permutation (merge_sorted ds) (concat ds).
Proof.
  induction ds as [|d ds IH]; [apply Permutation_refl|].
  unfold merge_sorted in *. cbn [fold_right concat].
  eapply Permutation_trans; [apply merge2_perm|]. apply Permutation_app_head, IH.
Qed.

Theorem merge_sorted_sorted : forall ds,
  Forall Repart.sortedZ ds -> Repart.sortedZ (merge_sorted ds).
Proof.
  induction ds as [|d ds IH]; intros H; [exact I|].
  inversion H as [|? ? Hd Hds]; subst.
  unfold merge_sorted in *. cbn [fold_right]. apply merge2_sorted; [exact Hd|apply IH, Hds].
Qed.

(* ========================================================================================== *)
(* 2. unique                                                                                   *)
(* ========================================================================================== *)

Lemma existsb_eqb_In : forall x l, existsb (Z.eqb x) l = true <-> In x l.
Proof.
  intros x l. rewrite existsb_exists. split.
  - intros [y [Hy E]]. apply Z.eqb_eq in E. subst. exact Hy.
  - intros H. exists x. split; [exact H|apply Z.eqb_refl].
Qed.

Lemma uniq_seen_In : forall l seen x, In x (uniq_seen seen l) <-> In x l /\ ~ In x seen.
Proof.
  induction l as [|y l IH]; intros seen x; cbn [uniq_seen].
  - cbn [In]. tauto.
  - destruct (existsb (Z.eqb y) seen) eqn:E.
    + apply existsb_eqb_In in E. rewrite IH. cbn [In]. split; [tauto|].
      intros [[->|H] Hn]; [contradiction|tauto].
    + assert (Hn : ~ In y seen) by (intro H; apply existsb_eqb_In in H; congruence).
      cbn [In]. rewrite IH. cbn [In]. destruct (Z.eq_dec y x) as [->|Hne]; tauto.
Qed.

Theorem unique_In : forall l x, In x (unique l) <-> In x l.
Proof. intros l x. unfold unique. rewrite uniq_seen_In. cbn [In]. tauto. Qed.

Lemma uniq_seen_strict : forall l seen, Repart.sortedZ l -> strict_incr (uniq_seen seen l) = true.
Proof.
  induction l as [|x l IH]; intros seen Hs; [reflexivity|].
  apply sorted_cons_iff in Hs. destruct Hs as [H1 H2]. cbn [uniq_seen].
  destruct (existsb (Z.eqb x) seen); [apply IH, H2|].
  apply strict_cons; [|apply IH, H2].
  intros y Hy. apply uniq_seen_In in Hy. destruct Hy as [Hy Hn]. specialize (H1 y Hy).
  assert (y <> x) by (intros ->; apply Hn; left; reflexivity). lia.
Qed.

Theorem unique_sorted_strict : forall l, Repart.sortedZ l -> strict_incr (unique l) = true.
Proof. intros l Hs. apply uniq_seen_strict, Hs. Qed.

(* ========================================================================================== *)
(* 3. align_divisions is a valid divisions vector                                              *)
(* ========================================================================================== *)

Lemma align_cases : forall ds,
  (exists x, unique (merge_sorted ds) = [x] /\ align_divisions ds = [x; x]) \/
  ((length (unique (merge_sorted ds)) <> 1)%nat /\ align_divisions ds = unique (merge_sorted ds)).
Proof.
  intros ds. unfold align_divisions. destruct (unique (merge_sorted ds)) as [|x [|y r]].
  - right. split; [cbn; lia|reflexivity].
  - left. exists x. split; reflexivity.
  - right. split; [cbn [length]; lia|reflexivity].
Qed.

Lemma concat_nonempty : forall ds : list (list Z),
  ds <> [] -> Forall (fun d => (2 <= length d)%nat) ds -> concat ds <> [].
Proof.
  intros [|d ds] Hne Hl; [congruence|]. inversion Hl as [|? ? Hd _]; subst.
  destruct d as [|x d]; [cbn in Hd; lia|]. cbn. discriminate.
Qed.

Lemma unique_merge_nonempty : forall ds, concat ds <> [] -> unique (merge_sorted ds) <> [].
Proof.
  intros ds Hne E. destruct (concat ds) as [|x r] eqn:Ec; [congruence|].
  assert (Hx : In x (unique (merge_sorted ds))).
  { apply unique_In. apply (Permutation_in _ (Permutation_sym (merge_sorted_perm ds))).
    rewrite Ec. left. reflexivity. }
  rewrite E in Hx. exact Hx.
Qed.

Lemma align_shape : forall ds,
  ds <> [] -> Forall (fun d => (2 <= length d)%nat) ds -> Forall Repart.sortedZ ds ->
  (strict_incr (align_divisions ds) = true /\ (2 <= length (align_divisions ds))%nat)
  \/ exists x, align_divisions ds = [x; x].
Proof.
  intros ds Hne Hl Hs.
  pose proof (unique_merge_nonempty ds (concat_nonempty ds Hne Hl)) as Hu.
  pose proof (unique_sorted_strict _ (merge_sorted_sorted ds Hs)) as Hst.
  destruct (align_cases ds) as [[x [_ E]]|[Hlen E]].
  - right. exists x. exact E.
  - left. rewrite E. split; [exact Hst|].
    destruct (unique (merge_sorted ds)) as [|x [|y r]]; [congruence|cbn in Hlen; lia|cbn [length]; lia].
Qed.

Theorem align_strict_or_point : forall ds,
  ds <> [] -> Forall (fun d => (2 <= length d)%nat) ds -> Forall Repart.sortedZ ds ->
  strict_incr (align_divisions ds) = true \/ exists x, align_divisions ds = [x; x].
Proof.
  intros ds Hne Hl Hs. destruct (align_shape ds Hne Hl Hs) as [[H _]|H]; [left; exact H|right; exact H].
Qed.

Theorem align_valid : forall ds,
  ds <> [] -> Forall (fun d => (2 <= length d)%nat) ds -> Forall Repart.sortedZ ds ->
  valid_divs (align_divisions ds) = true.
Proof.
  intros ds Hne Hl Hs. destruct (align_shape ds Hne Hl Hs) as [[H1 H2]|[x E]].
  - apply strict_valid; assumption.
  - rewrite E. unfold valid_divs, lastZ. cbn. rewrite Z.eqb_refl, Z.ltb_irrefl. reflexivity.
Qed.

Lemma align_length : forall ds,
  ds <> [] -> Forall (fun d => (2 <= length d)%nat) ds -> Forall Repart.sortedZ ds ->
  (2 <= length (align_divisions ds))%nat.
Proof.
  intros ds Hne Hl Hs. destruct (align_shape ds Hne Hl Hs) as [[_ H2]|[x E]];
    [exact H2|rewrite E; cbn; lia].
Qed.

Lemma align_sorted : forall ds,
  ds <> [] -> Forall (fun d => (2 <= length d)%nat) ds -> Forall Repart.sortedZ ds ->
  Repart.sortedZ (align_divisions ds).
Proof.
  intros ds Hne Hl Hs. destruct (align_shape ds Hne Hl Hs) as [[H1 _]|[x E]].
  - apply strict_sorted, H1.
  - rewrite E. cbn. repeat split; lia.
Qed.

(* ========================================================================================== *)
(* 4. membership and bounds                                                                    *)
(* ========================================================================================== *)

Lemma align_In_iff : forall ds x, In x (align_divisions ds) <-> In x (concat ds).
Proof.
  intros ds x.
  assert (H : In x (align_divisions ds) <-> In x (unique (merge_sorted ds))).
  { destruct (align_cases ds) as [[y [E1 E2]]|[_ E]]; rewrite ?E1, ?E2, ?E; cbn [In]; tauto. }
  rewrite H, unique_In. split; intros Hx.
  - apply (Permutation_in _ (merge_sorted_perm ds)), Hx.
  - apply (Permutation_in _ (Permutation_sym (merge_sorted_perm ds))), Hx.
Qed.

Theorem align_contains : forall ds d x, In d ds -> In x d -> In x (align_divisions ds).
Proof. intros ds d x Hd Hx. apply align_In_iff, in_concat. exists d. split; assumption. Qed.

Theorem align_only : forall ds x, In x (align_divisions ds) -> exists d, In d ds /\ In x d.
Proof. intros ds x H. apply align_In_iff, in_concat in H. exact H. Qed.

Lemma fold_min_spec : forall l d,
  In (fold_right Z.min d l) (d :: l) /\ fold_right Z.min d l <= d /\
  forall y, In y l -> fold_right Z.min d l <= y.
Proof.
  induction l as [|x l IH]; intros d; cbn [fold_right].
  - split; [left; reflexivity|split; [lia|intros y []]].
  - destruct (IH d) as [H1 [H2 H3]]. split; [|split].
    + destruct (Z.min_spec x (fold_right Z.min d l)) as [[_ E]|[_ E]]; rewrite E.
      * right. left. reflexivity.
      * destruct H1 as [H1|H1]; [left; exact H1|right; right; exact H1].
    + lia.
    + intros y [<-|Hy]; [lia|specialize (H3 y Hy); lia].
Qed.

Lemma fold_max_spec : forall l d,
  In (fold_right Z.max d l) (d :: l) /\ d <= fold_right Z.max d l /\
  forall y, In y l -> y <= fold_right Z.max d l.
Proof.
  induction l as [|x l IH]; intros d; cbn [fold_right].
  - split; [left; reflexivity|split; [lia|intros y []]].
  - destruct (IH d) as [H1 [H2 H3]]. split; [|split].
    + destruct (Z.max_spec x (fold_right Z.max d l)) as [[_ E]|[_ E]]; rewrite E.
      * destruct H1 as [H1|H1]; [left; exact H1|right; right; exact H1].
      * right. left. reflexivity.
    + lia.
    + intros y [<-|Hy]; [lia|specialize (H3 y Hy); lia].
Qed.

Lemma minl_spec : forall l, l <> [] -> In (minl l) l /\ forall y, In y l -> minl l <= y.
Proof.
  intros [|x l] H; [congruence|]. unfold minl. cbn [hd].
  destruct (fold_min_spec (x :: l) x) as [H1 [_ H3]]. split; [|exact H3].
  destruct H1 as [H1|H1]; [left; exact H1|exact H1].
Qed.

Lemma maxl_spec : forall l, l <> [] -> In (maxl l) l /\ forall y, In y l -> y <= maxl l.
Proof.
  intros [|x l] H; [congruence|]. unfold maxl. cbn [hd].
  destruct (fold_max_spec (x :: l) x) as [H1 [_ H3]]. split; [|exact H3].
  destruct H1 as [H1|H1]; [left; exact H1|exact H1].
Qed.

Theorem align_bounds : forall ds,
  ds <> [] -> Forall (fun d => (2 <= length d)%nat) ds -> Forall Repart.sortedZ ds ->
  nthZ (align_divisions ds) 0 = minl (concat ds) /\ lastZ (align_divisions ds) = maxl (concat ds).
Proof.
  intros ds Hne Hl Hs.
  pose proof (align_sorted ds Hne Hl Hs) as HAs.
  pose proof (align_length ds Hne Hl Hs) as HAl.
  pose proof (concat_nonempty ds Hne Hl) as HL.
  assert (HAne : align_divisions ds <> []) by (intros E; rewrite E in HAl; cbn in HAl; lia).
  destruct (minl_spec _ HL) as [Hm1 Hm2]. destruct (maxl_spec _ HL) as [HM1 HM2].
  split.
  - pose proof (Hm2 _ (proj1 (align_In_iff ds _) (first_In _ HAne))).
    pose proof (sorted_first_le _ _ HAs (proj2 (align_In_iff ds _) Hm1)). lia.
  - pose proof (HM2 _ (proj1 (align_In_iff ds _) (lastZ_In _ HAne))).
    pose proof (sorted_le_last _ _ HAs (proj2 (align_In_iff ds _) HM1)). lia.
Qed.

Corollary align_covers : forall ds d,
  ds <> [] -> Forall (fun d => (2 <= length d)%nat) ds -> Forall Repart.sortedZ ds ->
  In d ds ->
  nthZ (align_divisions ds) 0 <= nthZ d 0 /\ lastZ d <= lastZ (align_divisions ds).
Proof.
  intros ds d Hne Hl Hs Hd.
  pose proof (align_sorted ds Hne Hl Hs) as HAs.
  assert (Hdne : d <> []).
  { pose proof (proj1 (Forall_forall _ _) Hl d Hd) as H. cbv beta in H. intros ->. cbn in H. lia. }
  split.
  - apply sorted_first_le; [exact HAs|]. apply (align_contains ds d _ Hd), first_In, Hdne.
  - apply sorted_le_last; [exact HAs|]. apply (align_contains ds d _ Hd), lastZ_In, Hdne.
Qed.

(* ========================================================================================== *)
(* 5. every index value within [b_0, b_last] falls into exactly one target range               *)
(*    (only non-decreasing b with >= 2 entries is needed; valid_divs b is a special case)      *)
(* ========================================================================================== *)

Lemma in_target_S : forall x b j v, in_target (x :: b) (S j) v = in_target b j v.
Proof. intros. reflexivity. Qed.

Lemma in_target_prop : forall b j v, in_target b j v = true <->
  nthZ b j <= v /\ (v < nthZ b (S j) \/ (S (S j) = length b /\ v = nthZ b (S j))).
Proof. intros b j v. unfold in_target. lia. Qed.

Lemma lastZ_cons2 : forall x y l, lastZ (x :: y :: l) = lastZ (y :: l).
Proof. reflexivity. Qed.

Lemma target_exists : forall b v,
  Repart.sortedZ b -> (2 <= length b)%nat -> nthZ b 0 <= v <= lastZ b ->
  exists j, (j < length b - 1)%nat /\ in_target b j v = true.
Proof.
  induction b as [|x b IH]; intros v Hs Hl Hv; [cbn in Hl; lia|].
  destruct b as [|y b]; [cbn in Hl; lia|].
  destruct (Z.ltb_spec v y) as [Hlt|Hge].
  - exists 0%nat. split; [cbn [length]; lia|].
    apply in_target_prop. unfold nthZ in *. cbn [nth] in *. lia.
  - destruct b as [|z b].
    + exists 0%nat. split; [cbn [length]; lia|].
      apply in_target_prop. unfold nthZ, lastZ in *. cbn [nth last length] in *. lia.
    + destruct Hs as [_ Hs]. rewrite lastZ_cons2 in Hv.
      destruct (IH v Hs) as [j [Hj Ht]].
      * cbn [length]. lia.
      * unfold nthZ in *. cbn [nth] in *. lia.
      * exists (S j). rewrite in_target_S. split; [cbn [length] in *; lia|exact Ht].
Qed.

Lemma target_lt_absurd : forall b v j j',
  Repart.sortedZ b -> (j < j')%nat -> (j' < length b - 1)%nat ->
  in_target b j v = true -> in_target b j' v = true -> False.
Proof.
  intros b v j j' Hs Hjj Hj' H1 H2.
  apply in_target_prop in H1. apply in_target_prop in H2.
  pose proof (sorted_nth_le b Hs (S j) j' ltac:(lia) ltac:(lia)). lia.
Qed.

Lemma target_unique : forall b v j j',
  Repart.sortedZ b -> (j < length b - 1)%nat -> (j' < length b - 1)%nat ->
  in_target b j v = true -> in_target b j' v = true -> j = j'.
Proof.
  intros b v j j' Hs Hj Hj' H1 H2.
  destruct (lt_eq_lt_dec j j') as [[Hlt|He]|Hgt]; [|exact He|].
  - exfalso. exact (target_lt_absurd b v j j' Hs Hlt Hj' H1 H2).
  - exfalso. exact (target_lt_absurd b v j' j Hs Hgt Hj H2 H1).
Qed.

Theorem target_exactly_one : forall b v,
  Repart.sortedZ b -> (2 <= length b)%nat -> nthZ b 0 <= v <= lastZ b ->
  exists j, (j < length b - 1)%nat /\ in_target b j v = true /\
            forall j', (j' < length b - 1)%nat -> in_target b j' v = true -> j' = j.
Proof.
  intros b v Hs Hl Hv. destruct (target_exists b v Hs Hl Hv) as [j [Hj Ht]].
  exists j. split; [exact Hj|split; [exact Ht|]].
  intros j' Hj' Ht'. exact (target_unique b v j' j Hs Hj' Hj Ht' Ht).
Qed.

Lemma valid_divs_sorted : forall b, valid_divs b = true -> Repart.sortedZ b /\ (2 <= length b)%nat.
Proof.
  intros b H. unfold valid_divs in H. apply andb_true_iff in H. destruct H as [Hl H].
  apply Nat.leb_le in Hl. split; [|exact Hl].
  apply orb_true_iff in H. destruct H as [H|H]; [apply strict_sorted, H|].
  apply andb_true_iff in H. destruct H as [H1 H2]. apply Z.eqb_eq in H2.
  apply strict_sorted in H1. apply sortedZ_bridge. apply sortedZ_bridge in H1.
  intros i Hi.
  assert (Hrl : length (removelast b) = (length b - 1)%nat).
  { destruct b as [|x b]; [reflexivity|]. rewrite (app_removelast_last 0 (l := x :: b)) at 2 by discriminate.
    rewrite app_length. cbn [length]. lia. }
  assert (Hnth : forall k, (k < length b - 1)%nat -> nth k (removelast b) 0 = nth k b 0).
  { intros k Hk. destruct b as [|x b]; [cbn in Hk; lia|].
    rewrite (app_removelast_last 0 (l := x :: b)) at 2 by discriminate.
    rewrite app_nth1 by lia. reflexivity. }
  destruct (Nat.eq_dec (S (S i)) (length b)) as [E|NE].
  - rewrite !lastZ_nth in H2. unfold nthZ in H2. rewrite Hrl in H2.
    rewrite Hnth in H2 by lia.
    replace (length b - 1)%nat with (S i) in H2 by lia.
    replace (S i - 1)%nat with i in H2 by lia. lia.
  - specialize (H1 i ltac:(lia)). rewrite !Hnth in H1 by lia. exact H1.
Qed.

(* partitioning a list by a family of predicates of which exactly one holds for every element *)
Lemma perm_split : forall (A : Type) (g : nat -> A -> bool) n L,
  (forall x, In x L -> exists j, (j < n)%nat /\ g j x = true /\
                                 forall j', (j' < n)%nat -> g j' x = true -> j' = j) ->
  Permutation (concat (map (fun j => filter (g j) L) (seq 0 n))) L.
Proof.
  intros A g n. induction L as [|x L IH]; intros H.
  - assert (E : forall l : list nat, concat (map (fun j => filter (g j) []) l) = []).
    { induction l as [|a l IHl]; [reflexivity|]. cbn [map concat filter app]. exact IHl. }
    rewrite E. constructor.
  - destruct (H x (or_introl eq_refl)) as [j [Hj [Hg Hu]]].
    assert (IH' := IH (fun y Hy => H y (or_intror Hy))).
    assert (Hn : n = (j + S (n - S j))%nat) by lia.
    rewrite Hn in IH' |- *. rewrite seq_app, map_app, concat_app in IH' |- *.
    cbn [seq map concat plus] in IH' |- *.
    assert (E1 : map (fun j0 => filter (g j0) (x :: L)) (seq 0 j) = map (fun j0 => filter (g j0) L) (seq 0 j)).
    { apply map_ext_in. intros j0 Hj0. apply in_seq in Hj0. cbn [filter].
      destruct (g j0 x) eqn:E; [|reflexivity]. specialize (Hu j0 ltac:(lia) E). lia. }
    assert (E3 : map (fun j0 => filter (g j0) (x :: L)) (seq (S j) (n - S j))
                 = map (fun j0 => filter (g j0) L) (seq (S j) (n - S j))).
    { apply map_ext_in. intros j0 Hj0. apply in_seq in Hj0. cbn [filter].
      destruct (g j0 x) eqn:E; [|reflexivity]. specialize (Hu j0 ltac:(lia) E). lia. }
    rewrite E1, E3. cbn [filter]. rewrite Hg.
    eapply Permutation_trans; [apply Permutation_app_head; rewrite <- app_comm_cons; apply Permutation_refl|].
    eapply Permutation_trans; [apply Permutation_sym, Permutation_middle|].
    apply perm_skip. exact IH'.
Qed.

Section Sem.
  Variable row : Type.
  Variable idx : row -> Z.

  Lemma spec_plan_length : forall b (P : list (list row)), length (spec_plan idx b P) = (length b - 1)%nat.
  Proof. intros. unfold spec_plan. rewrite map_length, seq_length. reflexivity. Qed.

  (* general lemma: non-decreasing b, every index value within [b_0, b_last] *)
  Lemma spec_plan_perm_sorted : forall b (P : list (list row)),
    Repart.sortedZ b -> (2 <= length b)%nat ->
    (forall r, In r (concat P) -> nthZ b 0 <= idx r <= lastZ b) ->
    Permutation (concat (spec_plan idx b P)) (concat P).
  Proof.
    intros b P Hs Hl Hr. unfold spec_plan.
    change (spec_out idx b P) with (fun j => filter ((fun j r => in_target b j (idx r)) j) (concat P)).
    apply (perm_split _ (fun j r => in_target b j (idx r))).
    intros r Hin. apply target_exactly_one; [exact Hs|exact Hl|apply Hr, Hin].
  Qed.

  Lemma spec_plan_perm_valid : forall b (P : list (list row)),
    valid_divs b = true ->
    (forall r, In r (concat P) -> nthZ b 0 <= idx r <= lastZ b) ->
    Permutation (concat (spec_plan idx b P)) (concat P).
  Proof.
    intros b P Hv Hr. destruct (valid_divs_sorted b Hv) as [Hs Hl].
    apply spec_plan_perm_sorted; assumption.
  Qed.

  Lemma respects_bounds : forall a (P : list (list row)) r,
    Repart.sortedZ a -> respects idx a P -> In r (concat P) -> nthZ a 0 <= idx r <= lastZ a.
  Proof.
    intros a P r Hs [Hlen Hr] Hin.
    apply in_concat in Hin. destruct Hin as [p [Hp Hrp]].
    destruct (In_nth P p [] Hp) as [i [Hi Hnth]]. subst p.
    specialize (Hr i r Hrp). apply in_target_prop in Hr.
    pose proof (sorted_nth_le a Hs 0 i ltac:(lia) ltac:(lia)).
    pose proof (sorted_nth_le a Hs (S i) (length a - 1) ltac:(lia) ltac:(lia)).
    rewrite lastZ_nth. lia.
  Qed.

  Lemma aligned_bounds : forall ds a (P : list (list row)) r,
    ds <> [] -> Forall (fun d => (2 <= length d)%nat) ds -> Forall Repart.sortedZ ds ->
    In a ds -> respects idx a P -> In r (concat P) ->
    nthZ (align_divisions ds) 0 <= idx r <= lastZ (align_divisions ds).
  Proof.
    intros ds a P r Hne Hl Hs Ha Hresp Hin.
    pose proof (proj1 (Forall_forall _ _) Hs a Ha) as Has.
    pose proof (respects_bounds a P r Has Hresp Hin).
    pose proof (align_covers ds a Hne Hl Hs Ha). lia.
  Qed.

  Theorem align_partition_exact : forall ds a (P : list (list row)),
    ds <> [] -> Forall (fun d => (2 <= length d)%nat) ds -> Forall Repart.sortedZ ds ->
    In a ds -> respects idx a P ->
    (forall r, In r (concat P) ->
       exists j, (j < length (align_divisions ds) - 1)%nat /\
                 in_target (align_divisions ds) j (idx r) = true /\
                 forall j', (j' < length (align_divisions ds) - 1)%nat ->
                            in_target (align_divisions ds) j' (idx r) = true -> j' = j)
    /\ Permutation (concat (spec_plan idx (align_divisions ds) P)) (concat P).
  Proof.
    intros ds a P Hne Hl Hs Ha Hresp.
    pose proof (align_sorted ds Hne Hl Hs) as HAs. pose proof (align_length ds Hne Hl Hs) as HAl.
    split.
    - intros r Hin. apply target_exactly_one; [exact HAs|exact HAl|].
      exact (aligned_bounds ds a P r Hne Hl Hs Ha Hresp Hin).
    - apply spec_plan_perm_sorted; [exact HAs|exact HAl|].
      intros r Hin. exact (aligned_bounds ds a P r Hne Hl Hs Ha Hresp Hin).
  Qed.

  (* ======================================================================================== *)
  (* 6. co-partitioning                                                                        *)
  (* ======================================================================================== *)

  Lemma nth_map_seq : forall (A : Type) (g : nat -> A) n j d, (j < n)%nat -> nth j (map g (seq 0 n)) d = g j.
  Proof.
    intros A g n j d Hj. rewrite (nth_indep _ d (g 0%nat)) by (rewrite map_length, seq_length; lia).
    rewrite map_nth, seq_nth by lia. reflexivity.
  Qed.

  Lemma spec_plan_nth : forall b (P : list (list row)) j, (j < length b - 1)%nat ->
    nth j (spec_plan idx b P) [] = spec_out idx b P j.
  Proof. intros b P j Hj. unfold spec_plan. apply nth_map_seq, Hj. Qed.

  Lemma spec_plan_nth_In : forall b (P : list (list row)) j r,
    In r (nth j (spec_plan idx b P) []) <->
    (j < length b - 1)%nat /\ In r (concat P) /\ in_target b j (idx r) = true.
  Proof.
    intros b P j r. destruct (lt_dec j (length b - 1)) as [Hj|Hj].
    - rewrite spec_plan_nth by exact Hj. unfold spec_out. rewrite filter_In. tauto.
    - rewrite nth_overflow by (rewrite spec_plan_length; lia). cbn [In]. tauto.
  Qed.

  Theorem align_copartitioned : forall b (P : list (list row)) v j, (j < length b - 1)%nat ->
    sel idx v (nth j (spec_plan idx b P) []) = if in_target b j v then sel idx v (concat P) else [].
  Proof.
    intros b P v j Hj. rewrite spec_plan_nth by exact Hj. unfold spec_out, sel.
    induction (concat P) as [|r L IH].
    - destruct (in_target b j v); reflexivity.
    - cbn [filter]. destruct (Z.eqb_spec (idx r) v) as [E|NE].
      + rewrite E. destruct (in_target b j v) eqn:Et.
        * cbn [filter]. rewrite E, Z.eqb_refl, IH. reflexivity.
        * exact IH.
      + destruct (in_target b j (idx r)); [cbn [filter]; destruct (Z.eqb_spec (idx r) v); [contradiction|]|]; exact IH.
  Qed.

  Corollary align_same_partition : forall ds (P1 P2 : list (list row)) j r1 r2,
    idx r1 = idx r2 ->
    In r1 (nth j (spec_plan idx (align_divisions ds) P1) []) -> In r2 (concat P2) ->
    In r2 (nth j (spec_plan idx (align_divisions ds) P2) []).
  Proof.
    intros ds P1 P2 j r1 r2 E H1 H2. apply spec_plan_nth_In in H1. destruct H1 as [Hj [_ Ht]].
    apply spec_plan_nth_In. rewrite <- E. tauto.
  Qed.

  (* ======================================================================================== *)
  (* 8a. truthfulness of the repartitioned operand                                             *)
  (* ======================================================================================== *)

  Lemma truthful_of_targets : forall b parts,
    Repart.sortedZ b -> (2 <= length b)%nat -> length parts = (length b - 1)%nat ->
    (forall j x, (j < length parts)%nat -> In x (nth j parts []) -> in_target b j x = true) ->
    Divisions.truthful b parts.
  Proof.
    intros b parts Hs Hl Hlen H. split; [lia|split; [apply sortedZ_bridge, Hs|]].
    intros i x Hi Hx. specialize (H i x Hi Hx). apply in_target_prop in H.
    unfold row_ok. unfold nthZ in H. lia.
  Qed.

  Lemma spec_plan_truthful : forall b (P : list (list row)),
    Repart.sortedZ b -> (2 <= length b)%nat ->
    Divisions.truthful b (map (map idx) (spec_plan idx b P)).
  Proof.
    intros b P Hs Hl. apply truthful_of_targets; [exact Hs|exact Hl| |].
    - rewrite map_length. apply spec_plan_length.
    - intros j x Hj Hx. change (@nil Z) with (map idx []) in Hx. rewrite map_nth in Hx.
      apply in_map_iff in Hx. destruct Hx as [r [<- Hr]]. apply spec_plan_nth_In in Hr. tauto.
  Qed.

  Theorem align_truthful : forall ds (P : list (list row)),
    ds <> [] -> Forall (fun d => (2 <= length d)%nat) ds -> Forall Repart.sortedZ ds ->
    Divisions.truthful (align_divisions ds) (map (map idx) (spec_plan idx (align_divisions ds) P)).
  Proof.
    intros ds P Hne Hl Hs. apply spec_plan_truthful; [apply align_sorted|apply align_length]; assumption.
  Qed.

  (* ======================================================================================== *)
  (* 7. blockwise = global for index-local operations                                          *)
  (* ======================================================================================== *)
  Section Local.
    Variable out : Type.
    Variable f : list row -> list row -> list out.
    Variable key : out -> Z.
    Hypothesis locality : forall (p : Z -> bool) A B,
      filter (fun o => p (key o)) (f A B) = f (filter (fun r => p (idx r)) A) (filter (fun r => p (idx r)) B).

    Lemma combine_map_same : forall (A B C : Type) (g1 : A -> B) (g2 : A -> C) l,
      combine (map g1 l) (map g2 l) = map (fun x => (g1 x, g2 x)) l.
    Proof. induction l as [|x l IH]; [reflexivity|]. cbn [map combine]. rewrite IH. reflexivity. Qed.

    Lemma blockwise2_spec : forall b (P1 P2 : list (list row)),
      blockwise2 f (spec_plan idx b P1) (spec_plan idx b P2)
      = map (fun j => filter (fun o => in_target b j (key o)) (f (concat P1) (concat P2))) (seq 0 (length b - 1)).
    Proof.
      intros b P1 P2. unfold blockwise2, spec_plan. rewrite combine_map_same, map_map.
      apply map_ext. intros j. cbn [fst snd]. unfold spec_out.
      symmetry. apply (locality (in_target b j)).
    Qed.

    (* holds for ANY divisions b: none of the hypotheses of 3 / respects is needed *)
    Lemma blockwise_local_gen : forall b (P1 P2 : list (list row)) j, (j < length b - 1)%nat ->
      nth j (blockwise2 f (spec_plan idx b P1) (spec_plan idx b P2)) []
      = filter (fun o => in_target b j (key o)) (f (concat P1) (concat P2)).
    Proof.
      intros b P1 P2 j Hj. rewrite blockwise2_spec.
      apply (nth_map_seq _ (fun j => filter (fun o => in_target b j (key o)) (f (concat P1) (concat P2)))), Hj.
    Qed.

    Theorem aligned_blockwise_local : forall ds a1 a2 (P1 P2 : list (list row)),
      ds <> [] -> Forall (fun d => (2 <= length d)%nat) ds -> Forall Repart.sortedZ ds ->
      In a1 ds -> In a2 ds -> respects idx a1 P1 -> respects idx a2 P2 ->
      forall j, (j < length (align_divisions ds) - 1)%nat ->
      nth j (blockwise2 f (spec_plan idx (align_divisions ds) P1) (spec_plan idx (align_divisions ds) P2)) []
      = filter (fun o => in_target (align_divisions ds) j (key o)) (f (concat P1) (concat P2)).
    Proof. intros ds a1 a2 P1 P2 _ _ _ _ _ _ _ j Hj. apply blockwise_local_gen, Hj. Qed.

    Corollary aligned_blockwise_perm : forall ds a1 a2 (P1 P2 : list (list row)),
      ds <> [] -> Forall (fun d => (2 <= length d)%nat) ds -> Forall Repart.sortedZ ds ->
      In a1 ds -> In a2 ds -> respects idx a1 P1 -> respects idx a2 P2 ->
      (forall o, In o (f (concat P1) (concat P2)) ->
                 nthZ (align_divisions ds) 0 <= key o <= lastZ (align_divisions ds)) ->
      Permutation (concat (blockwise2 f (spec_plan idx (align_divisions ds) P1)
                                        (spec_plan idx (align_divisions ds) P2)))
                  (f (concat P1) (concat P2)).
    Proof.
      intros ds a1 a2 P1 P2 Hne Hl Hs _ _ _ _ Hkeys. rewrite blockwise2_spec.
      apply (perm_split _ (fun j o => in_target (align_divisions ds) j (key o))).
      intros o Ho. apply target_exactly_one; [apply align_sorted|apply align_length|apply Hkeys, Ho]; assumption.
    Qed.

    (* 8b *)
    Theorem aligned_result_truthful : forall ds a1 a2 (P1 P2 : list (list row)),
      ds <> [] -> Forall (fun d => (2 <= length d)%nat) ds -> Forall Repart.sortedZ ds ->
      In a1 ds -> In a2 ds -> respects idx a1 P1 -> respects idx a2 P2 ->
      Divisions.truthful (align_divisions ds)
        (map (map key) (blockwise2 f (spec_plan idx (align_divisions ds) P1)
                                     (spec_plan idx (align_divisions ds) P2))).
    Proof.
      intros ds a1 a2 P1 P2 Hne Hl Hs _ _ _ _. rewrite blockwise2_spec.
      apply truthful_of_targets; [apply align_sorted|apply align_length| |]; try assumption.
      - rewrite !map_length, seq_length. reflexivity.
      - intros j x Hj Hx. rewrite !map_length, seq_length in Hj.
        change (@nil Z) with (map key []) in Hx. rewrite map_nth in Hx.
        rewrite (nth_map_seq _ (fun j => filter (fun o => in_target (align_divisions ds) j (key o))
                                              (f (concat P1) (concat P2)))) in Hx by exact Hj.
        apply in_map_iff in Hx. destruct Hx as [o [<- Ho]]. apply filter_In in Ho. tauto.
    Qed.
  End Local.
End Sem.

(* ========================================================================================== *)
(* 9. single-partition branch                                                                  *)
(* ========================================================================================== *)

Lemma minl_le_maxl : forall l, minl l <= maxl l.
Proof.
  intros [|x l]; [unfold minl, maxl; cbn; lia|].
  assert (H : x :: l <> []) by discriminate.
  destruct (minl_spec _ H) as [_ H1]. destruct (maxl_spec _ H) as [_ H2].
  specialize (H1 x (or_introl eq_refl)). specialize (H2 x (or_introl eq_refl)). lia.
Qed.

Theorem align_single_truthful : forall (ds : list (list Z)) (Q : list Z),
  Forall (fun d => exists lo hi, d = [lo; hi] /\ lo <= hi) ds ->
  Forall (fun x => exists d, In d ds /\ nthZ d 0 <= x <= lastZ d) Q ->
  Divisions.truthful (align_single ds) [Q].
Proof.
  intros ds Q Hds HQ. unfold align_single. split; [reflexivity|split].
  - intros i Hi. cbn [length] in Hi. assert (i = 0)%nat by lia. subst i. cbn [nth].
    apply minl_le_maxl.
  - intros i x Hi Hx. cbn [length] in Hi. assert (i = 0)%nat by lia. subst i. cbn [nth] in Hx.
    destruct (proj1 (Forall_forall _ _) HQ x Hx) as [d [Hd Hb]].
    destruct (proj1 (Forall_forall _ _) Hds d Hd) as [lo [hi [E Hle]]]. subst d.
    unfold nthZ, lastZ in Hb. cbn [nth last] in Hb.
    assert (Hlo : In lo (concat ds)) by (apply in_concat; exists [lo; hi]; split; [exact Hd|left; reflexivity]).
    assert (Hhi : In hi (concat ds)) by (apply in_concat; exists [lo; hi]; split; [exact Hd|right; left; reflexivity]).
    assert (Hne : concat ds <> []) by (intros E; rewrite E in Hlo; exact Hlo).
    destruct (minl_spec _ Hne) as [_ H1]. destruct (maxl_spec _ Hne) as [_ H2].
    specialize (H1 lo Hlo). specialize (H2 hi Hhi).
    unfold row_ok. cbn [nth length]. lia.
Qed.

(* ========================================================================================== *)
(* 10. refutations of the two variants                                                         *)
(* ========================================================================================== *)

Definition idZ (x : Z) : Z := x.

Ltac solve_respects :=
  split; [reflexivity|];
  let i := fresh "i" in let r := fresh "r" in let Hr := fresh "Hr" in
  intros i r Hr;
  do 4 (destruct i as [|i];
        [cbn [nth In] in Hr; repeat (destruct Hr as [<-|Hr]; [vm_compute; reflexivity|]); contradiction|]);
  cbn [nth] in Hr; destruct i; cbn in Hr; contradiction.

(* "use the left operand's divisions": a row of the second operand is lost *)
Theorem align_first_only_refuted :
  exists (ds : list (list Z)) (a : list Z) (P : list (list Z)) (r : Z),
    ds <> [] /\ Forall (fun d => (2 <= length d)%nat) ds /\ Forall Repart.sortedZ ds /\
    In a ds /\ respects idZ a P /\
    In r (concat P) /\
    ~ In r (concat (spec_plan idZ (align_divisions_first_only ds) P)) /\
    (* whereas the real rule keeps it *)
    In r (concat (spec_plan idZ (align_divisions ds) P)).
Proof.
  exists [[0; 5]; [3; 12]], [3; 12], [[7]], 7.
  split; [discriminate|]. split; [repeat constructor; cbn; lia|].
  split; [repeat constructor; cbn; lia|].
  split; [right; left; reflexivity|].
  split; [solve_respects|].
  split; [left; reflexivity|].
  split; [vm_compute; intros H; exact H|vm_compute; left; reflexivity].
Qed.

(* unique() forgotten: the result is not a valid divisions vector, and an interior partition is
   declared for an empty range [b_j, b_{j+1}) with b_j = b_{j+1} (no value can ever fall into it).
   (A row is never duplicated: target_unique only needs b non-decreasing.) *)
Theorem align_nodedup_refuted :
  exists ds : list (list Z),
    ds <> [] /\ Forall (fun d => (2 <= length d)%nat) ds /\ Forall Repart.sortedZ ds /\
    Forall (fun d => strict_incr d = true) ds /\
    valid_divs (align_divisions_nodedup ds) = false /\
    (exists j, (S (S j) < length (align_divisions_nodedup ds))%nat /\
               nthZ (align_divisions_nodedup ds) j = nthZ (align_divisions_nodedup ds) (S j) /\
               forall v, in_target (align_divisions_nodedup ds) j v = false) /\
    valid_divs (align_divisions ds) = true.
Proof.
  exists [[0; 5; 10]; [5; 10; 12]].
  split; [discriminate|]. split; [repeat constructor; cbn; lia|].
  split; [repeat constructor; cbn; lia|].
  split; [repeat constructor|].
  split; [vm_compute; reflexivity|].
  split; [|vm_compute; reflexivity].
  exists 1%nat. split; [vm_compute; lia|]. split; [vm_compute; reflexivity|].
  intros v. assert (E : align_divisions_nodedup [[0; 5; 10]; [5; 10; 12]] = [0; 5; 5; 10; 10; 12]) by (vm_compute; reflexivity).
  rewrite E. unfold in_target, nthZ. cbn [nth length]. lia.
Qed.

(* ========================================================================================== *)
(* 11. non-vacuity                                                                             *)
(* ========================================================================================== *)

(* a concrete index-local operation: keep the rows of A whose index also occurs in B (semi-join) *)
Definition semi_f (A B : list Z) : list Z := filter (fun x => existsb (Z.eqb x) B) A.

Lemma existsb_filter_same : forall (p : Z -> bool) x B,
  p x = true -> existsb (Z.eqb x) (filter p B) = existsb (Z.eqb x) B.
Proof.
  intros p x B Hp. induction B as [|y B IH]; [reflexivity|].
  cbn [filter existsb]. destruct (p y) eqn:Ey.
  - cbn [existsb]. rewrite IH. reflexivity.
  - rewrite IH. destruct (Z.eqb_spec x y) as [->|_]; [congruence|reflexivity].
Qed.

Lemma semi_f_local : forall (p : Z -> bool) A B,
  filter (fun o => p (idZ o)) (semi_f A B)
  = semi_f (filter (fun r => p (idZ r)) A) (filter (fun r => p (idZ r)) B).
Proof.
  intros p A B. unfold semi_f, idZ. induction A as [|x A IH]; [reflexivity|].
  cbn [filter]. destruct (p x) eqn:Ep.
  - cbn [filter]. rewrite (existsb_filter_same (fun r => p r) x B Ep).
    destruct (existsb (Z.eqb x) B); cbn [filter]; rewrite ?Ep, IH; reflexivity.
  - destruct (existsb (Z.eqb x) B); cbn [filter]; rewrite ?Ep, IH; reflexivity.
Qed.

Definition ex_ds : list (list Z) := [[0; 5; 10]; [3; 5; 12; 12]].
Definition ex_P1 : list (list Z) := [[0; 2; 4]; [5; 7; 10]].
Definition ex_P2 : list (list Z) := [[3; 4]; [5; 7; 11]; [12]].

Example ex_align : align_divisions ex_ds = [0; 3; 5; 10; 12].
Proof. vm_compute. reflexivity. Qed.

(* every hypothesis of 5 and 7 (including Hkeys of the corollary) holds for this instance *)
Example ex_hypotheses :
  ex_ds <> [] /\ Forall (fun d => (2 <= length d)%nat) ex_ds /\ Forall Repart.sortedZ ex_ds /\
  In [0; 5; 10] ex_ds /\ In [3; 5; 12; 12] ex_ds /\
  respects idZ [0; 5; 10] ex_P1 /\ respects idZ [3; 5; 12; 12] ex_P2 /\
  (forall (p : Z -> bool) A B,
     filter (fun o => p (idZ o)) (semi_f A B)
     = semi_f (filter (fun r => p (idZ r)) A) (filter (fun r => p (idZ r)) B)) /\
  (forall o, In o (semi_f (concat ex_P1) (concat ex_P2)) ->
             nthZ (align_divisions ex_ds) 0 <= idZ o <= lastZ (align_divisions ex_ds)).
Proof.
  split; [discriminate|]. split; [repeat constructor; cbn; lia|].
  split; [repeat constructor; cbn; lia|].
  split; [left; reflexivity|]. split; [right; left; reflexivity|].
  split; [solve_respects|]. split; [solve_respects|].
  split; [exact semi_f_local|].
  intros o Ho. rewrite ex_align. unfold nthZ, lastZ, idZ. cbn [nth last].
  vm_compute in Ho. repeat (destruct Ho as [<-|Ho]; [lia|]). contradiction.
Qed.

(* ... and the theorems deliver, on this instance, the concrete facts one expects *)
Example ex_conclusions :
  Permutation (concat (spec_plan idZ (align_divisions ex_ds) ex_P1)) (concat ex_P1) /\
  Permutation (concat (spec_plan idZ (align_divisions ex_ds) ex_P2)) (concat ex_P2) /\
  (forall j, (j < length (align_divisions ex_ds) - 1)%nat ->
     nth j (blockwise2 semi_f (spec_plan idZ (align_divisions ex_ds) ex_P1)
                              (spec_plan idZ (align_divisions ex_ds) ex_P2)) []
     = filter (fun o => in_target (align_divisions ex_ds) j (idZ o)) (semi_f (concat ex_P1) (concat ex_P2))) /\
  Permutation (concat (blockwise2 semi_f (spec_plan idZ (align_divisions ex_ds) ex_P1)
                                         (spec_plan idZ (align_divisions ex_ds) ex_P2)))
              (semi_f (concat ex_P1) (concat ex_P2)) /\
  Divisions.truthful (align_divisions ex_ds)
    (map (map idZ) (blockwise2 semi_f (spec_plan idZ (align_divisions ex_ds) ex_P1)
                                      (spec_plan idZ (align_divisions ex_ds) ex_P2))) /\
  spec_plan idZ (align_divisions ex_ds) ex_P1 = [[0; 2]; [4]; [5; 7]; [10]] /\
  spec_plan idZ (align_divisions ex_ds) ex_P2 = [[]; [3; 4]; [5; 7]; [11; 12]] /\
  blockwise2 semi_f (spec_plan idZ (align_divisions ex_ds) ex_P1) (spec_plan idZ (align_divisions ex_ds) ex_P2)
    = [[]; [4]; [5; 7]; []] /\
  semi_f (concat ex_P1) (concat ex_P2) = [4; 5; 7].
Proof.
  destruct ex_hypotheses as [H1 [H2 [H3 [H4 [H5 [H6 [H7 [H8 H9]]]]]]]].
  split; [exact (proj2 (align_partition_exact Z idZ ex_ds _ ex_P1 H1 H2 H3 H4 H6))|].
  split; [exact (proj2 (align_partition_exact Z idZ ex_ds _ ex_P2 H1 H2 H3 H5 H7))|].
  split; [exact (aligned_blockwise_local Z idZ Z semi_f idZ H8 ex_ds _ _ ex_P1 ex_P2 H1 H2 H3 H4 H5 H6 H7)|].
  split; [exact (aligned_blockwise_perm Z idZ Z semi_f idZ H8 ex_ds _ _ ex_P1 ex_P2 H1 H2 H3 H4 H5 H6 H7 H9)|].
  split; [exact (aligned_result_truthful Z idZ Z semi_f idZ H8 ex_ds _ _ ex_P1 ex_P2 H1 H2 H3 H4 H5 H6 H7)|].
  repeat split; vm_compute; reflexivity.
Qed.

(* ========================================================================================== *)
Print Assumptions merge_sorted_perm.
Print Assumptions merge_sorted_sorted.
Print Assumptions unique_sorted_strict.
Print Assumptions unique_In.
Print Assumptions align_valid.
Print Assumptions align_strict_or_point.
Print Assumptions align_contains.
Print Assumptions align_only.
Print Assumptions align_bounds.
Print Assumptions align_covers.
Print Assumptions target_exactly_one.
Print Assumptions spec_plan_perm_valid.
Print Assumptions align_partition_exact.
Print Assumptions align_copartitioned.
Print Assumptions align_same_partition.
Print Assumptions aligned_blockwise_local.
Print Assumptions aligned_blockwise_perm.
Print Assumptions align_truthful.
Print Assumptions aligned_result_truthful.
Print Assumptions align_single_truthful.
Print Assumptions align_first_only_refuted.
Print Assumptions align_nodedup_refuted.
Print Assumptions semi_f_local.
Print Assumptions ex_hypotheses.
Print Assumptions ex_conclusions.
