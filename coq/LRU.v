(* LRU.v -- model of dask_expr/_util.py: class LRU (UserDict over an OrderedDict) op for op, and of
   the cached-call pattern used by _get_divisions, _get_mem_usages, _divisions_and_locations:
       if key in lru: return lru[key];  result = compute(..); lru[key] = result; return result
   Theorems: capacity / no duplicate keys / transparency (every call returns f key whatever the
   history, capacity and eviction) / failure atomicity. *)
From DX Require Import Base.

Section LRU.
  Variable V : Type.
  (* oldest first, like the OrderedDict iteration order *)
  Record lru := { items : list (nat * V); maxsize : nat }.

  Fixpoint find (k : nat) (l : list (nat * V)) : option V :=
    match l with [] => None | (k', v) :: r => if k =? k' then Some v else find k r end.
  Fixpoint remove (k : nat) (l : list (nat * V)) : list (nat * V) :=
    match l with [] => [] | (k', v) :: r => if k =? k' then remove k r else (k', v) :: remove k r end.
  Fixpoint update (k : nat) (v : V) (l : list (nat * V)) : list (nat * V) :=
    match l with [] => [] | (k', v') :: r => if k =? k' then (k', v) :: r else (k', v') :: update k v r end.

  Definition contains (s : lru) (k : nat) : bool := match find k (items s) with Some _ => true | None => false end.
  (* __getitem__: value + move_to_end; None = KeyError (state unchanged) *)
  Definition getitem (s : lru) (k : nat) : option V * lru :=
    match find k (items s) with
    | Some v => (Some v, {| items := remove k (items s) ++ [(k, v)]; maxsize := maxsize s |})
    | None => (None, s)
    end.
  (* __setitem__: if len >= maxsize: popitem(last=False) -- even when the key is already present;
     then dict assignment (in place for an existing key, appended otherwise).
     popitem on an empty dict raises KeyError: modelled as None (only reachable with maxsize = 0). *)
  Definition setitem (s : lru) (k : nat) (v : V) : option lru :=
    if maxsize s <=? length (items s) then
      match items s with
      | [] => None
      | _ :: r => Some {| items := match find k r with Some _ => update k v r | None => r ++ [(k, v)] end;
                          maxsize := maxsize s |}
      end
    else Some {| items := match find k (items s) with Some _ => update k v (items s) | None => items s ++ [(k, v)] end;
                 maxsize := maxsize s |}.

  (* ---- the cached-call pattern --------------------------------------------------------- *)
  Variable f : nat -> option V.      (* the computation; None = it raises *)
  Definition cached_call (s : lru) (k : nat) : option V * lru :=
    if contains s k then getitem s k
    else match f k with
         | None => (None, s)                               (* exception propagates before any write *)
         | Some v => match setitem s k v with
                     | Some s' => (Some v, s')
                     | None => (None, s)
                     end
         end.

  Definition keys (l : list (nat * V)) : list nat := map fst l.
  Definition Inv (s : lru) : Prop :=
    1 <= maxsize s /\ length (items s) <= maxsize s /\ NoDup (keys (items s)) /\
    forall k v, find k (items s) = Some v -> f k = Some v.

  (* -- list lemmas -- *)
  Lemma find_In : forall k l v, find k l = Some v -> In (k, v) l.
  Proof.
    induction l as [|[k' v'] r IH]; intros v H; simpl in *; [discriminate|].
    destruct (Nat.eqb_spec k k'); [inversion H; subst; left; reflexivity|right; auto].
  Qed.
  Lemma find_None_keys : forall k l, find k l = None <-> ~ In k (keys l).
  Proof.
    induction l as [|[k' v'] r IH]; simpl.
    - split; [intros _ []|reflexivity].
    - destruct (Nat.eqb_spec k k') as [->|Hne].
      + split; [discriminate|]. intro H. exfalso. apply H. left. reflexivity.
      + rewrite IH. split.
        * intros H [E|E]; [congruence|auto].
        * intros H E. apply H. right. exact E.
  Qed.
  Lemma keys_remove : forall k l, keys (remove k l) = List.remove Nat.eq_dec k (keys l).
  Proof.
    induction l as [|[k' v'] r IH]; simpl; [reflexivity|].
    destruct (Nat.eqb_spec k k'); destruct (Nat.eq_dec k k'); try congruence. simpl; rewrite IH; reflexivity.
  Qed.
  Lemma remove_notin : forall k l, ~ In k (keys l) -> remove k l = l.
  Proof.
    induction l as [|[k' v'] r IH]; intros H; simpl in *; [reflexivity|].
    destruct (Nat.eqb_spec k k') as [->|Hne]; [exfalso; apply H; left; reflexivity|].
    f_equal. apply IH. intro E. apply H. right. exact E.
  Qed.
  Lemma remove_length_find : forall k l v, NoDup (keys l) -> find k l = Some v -> S (length (remove k l)) = length l.
  Proof.
    induction l as [|[k' v'] r IH]; intros v Hnd H; simpl in *; [discriminate|].
    inversion Hnd as [|? ? Hni Hnd']; subst.
    destruct (Nat.eqb_spec k k') as [->|Hne].
    - rewrite remove_notin by exact Hni. reflexivity.
    - simpl. f_equal. eapply IH; eauto.
  Qed.
  Lemma NoDup_remove_keys : forall k l, NoDup (keys l) -> NoDup (keys (remove k l)) /\ ~ In k (keys (remove k l)).
  Proof.
    intros k l H. rewrite keys_remove. split.
    - clear -H. induction (keys l) as [|x r IH]; simpl; [constructor|].
      inversion H; subst. destruct (Nat.eq_dec k x); [auto|]. constructor; [|auto].
      intro Hin. apply in_remove in Hin. tauto.
    - apply remove_In.
  Qed.
  Lemma find_remove_other : forall k k' l, k <> k' -> find k (remove k' l) = find k l.
  Proof.
    induction l as [|[k2 v2] r IH]; intros Hne; simpl; [reflexivity|].
    destruct (Nat.eqb_spec k' k2); destruct (Nat.eqb_spec k k2); subst; simpl; try congruence; auto.
    - rewrite Nat.eqb_refl. reflexivity.
    - destruct (Nat.eqb_spec k k2); [congruence|auto].
  Qed.
  Lemma find_app : forall k l1 l2, find k (l1 ++ l2) = match find k l1 with Some v => Some v | None => find k l2 end.
  Proof.
    induction l1 as [|[k' v'] r IH]; intros l2; simpl; [reflexivity|]. destruct (k =? k'); auto.
  Qed.
  Lemma keys_update : forall k v l, keys (update k v l) = keys l.
  Proof. induction l as [|[k' v'] r IH]; simpl; [reflexivity|]. destruct (k =? k'); simpl; [reflexivity|f_equal; auto]. Qed.
  Lemma update_length : forall k v l, length (update k v l) = length l.
  Proof. induction l as [|[k' v'] r IH]; simpl; [reflexivity|]. destruct (k =? k'); simpl; auto. Qed.
  Lemma find_update : forall k v l k2, find k2 (update k v l) =
     if k2 =? k then (match find k l with Some _ => Some v | None => None end) else find k2 l.
  Proof.
    induction l as [|[k' v'] r IH]; intros k2; simpl.
    - destruct (k2 =? k); reflexivity.
    - destruct (Nat.eqb_spec k k'); simpl.
      + subst. destruct (Nat.eqb_spec k2 k'); reflexivity.
      + rewrite IH. destruct (Nat.eqb_spec k2 k'); destruct (Nat.eqb_spec k2 k); subst; try congruence; reflexivity.
  Qed.

  Lemma NoDup_snoc : forall (l : list nat) k, NoDup l -> ~ In k l -> NoDup (l ++ [k]).
  Proof.
    induction l as [|x r IH]; intros k Hnd Hni; simpl.
    - constructor; [intros []|constructor].
    - inversion Hnd; subst. constructor.
      + intro Hin. apply in_app_or in Hin. destruct Hin as [Hin|Hin]; [tauto|].
        simpl in Hin. destruct Hin as [Hin|[]]. subst. apply Hni. left. reflexivity.
      + apply IH; [assumption|]. intro. apply Hni. right. assumption.
  Qed.

  Lemma keys_app : forall l1 l2, keys (l1 ++ l2) = keys l1 ++ keys l2.
  Proof. intros. unfold keys. apply map_app. Qed.

  (* -- the invariant is preserved by every cached call, and every call returns f k -- *)
  Lemma set_inv : forall l m k v, 1 <= m -> length l <= m -> NoDup (keys l) ->
    (forall k0 v0, find k0 l = Some v0 -> f k0 = Some v0) -> f k = Some v -> length l < m \/ True ->
    forall l', l' = (match find k l with Some _ => update k v l | None => l ++ [(k, v)] end) ->
    NoDup (keys l') /\ (forall k0 v0, find k0 l' = Some v0 -> f k0 = Some v0) /\
    length l' <= S (length l) /\ (find k l <> None -> length l' = length l).
  Proof.
    intros l m k v Hm Hl Hnd Hf Hfk _ l' ->.
    destruct (find k l) as [v1|] eqn:E.
    - rewrite keys_update, update_length. repeat split; auto.
      intros k0 v0 H0. rewrite find_update in H0. destruct (Nat.eqb_spec k0 k); [subst; rewrite E in H0; congruence|auto].
    - rewrite keys_app, app_length. simpl. repeat split.
      + apply NoDup_snoc; [assumption|]. apply find_None_keys. exact E.
      + intros k0 v0 H0. rewrite find_app in H0. destruct (find k0 l) eqn:E0; [inversion H0; subst; auto|].
        simpl in H0. destruct (Nat.eqb_spec k0 k); [inversion H0; subst; assumption|discriminate].
      + lia.
      + congruence.
  Qed.

  Theorem cached_call_inv : forall s k r s', Inv s -> cached_call s k = (r, s') -> Inv s' /\ r = f k /\ (f k = None -> s' = s).
  Proof.
    intros s k r s' [Hm [Hl [Hnd Hf]]] H. unfold cached_call, contains in H.
    destruct (find k (items s)) as [v|] eqn:E.
    - (* hit *) unfold getitem in H. rewrite E in H. inversion H; subst; clear H.
      pose proof (Hf k v E) as Hfk. split; [|split; [congruence|intro Hn; congruence]].
      destruct (NoDup_remove_keys k (items s) Hnd) as [Hnd' Hni].
      unfold Inv; simpl. split; [assumption|]. split.
      + rewrite app_length. simpl. pose proof (remove_length_find k (items s) v Hnd E). lia.
      + split.
        * rewrite keys_app. simpl. apply NoDup_snoc; assumption.
        * intros k0 v0 H0. rewrite find_app in H0.
          destruct (Nat.eq_dec k0 k) as [->|Hne].
          -- assert (find k (remove k (items s)) = None) as Hn by (apply find_None_keys; exact Hni).
             rewrite Hn in H0. simpl in H0. rewrite Nat.eqb_refl in H0. congruence.
          -- rewrite find_remove_other in H0 by assumption.
             destruct (find k0 (items s)) eqn:E0; [inversion H0; subst; auto|].
             simpl in H0. destruct (Nat.eqb_spec k0 k); [congruence|discriminate].
    - (* miss *)
      destruct (f k) as [v|] eqn:Efk.
      + unfold setitem in H. destruct (Nat.leb_spec (maxsize s) (length (items s))) as [Hfull|Hroom].
        * destruct (items s) as [|[k1 v1] r0] eqn:Ei; [simpl in *; lia|].
          inversion H; subst; clear H. split; [|split; [reflexivity|intro; congruence]].
          inversion Hnd as [|? ? Hni1 Hndr]; subst.
          assert (Hfr : forall k0 v0, find k0 r0 = Some v0 -> f k0 = Some v0).
          { intros k0 v0 H0. apply Hf. simpl. destruct (Nat.eqb_spec k0 k1); [|assumption].
            subst. exfalso. apply Hni1. apply find_In in H0. apply (in_map fst) in H0. exact H0. }
          destruct (set_inv r0 (maxsize s) k v Hm ltac:(simpl in Hl; lia) Hndr Hfr Efk (or_intror I) _ eq_refl) as [A [B [C D]]].
          unfold Inv; simpl. split; [assumption|]. split; [simpl in Hl; lia|]. split; assumption.
        * inversion H; subst; clear H. split; [|split; [reflexivity|intro; congruence]].
          destruct (set_inv (items s) (maxsize s) k v Hm Hl Hnd Hf Efk (or_intror I) _ eq_refl) as [A [B [C D]]].
          unfold Inv; simpl. split; [assumption|]. split; [lia|]. split; assumption.
      + inversion H; subst. split; [unfold Inv; auto|]. split; [reflexivity|reflexivity].
  Qed.

  (* a whole session: any sequence of cached calls, any capacity >= 1 *)
  Fixpoint session (s : lru) (ks : list nat) : list (option V) * lru :=
    match ks with
    | [] => ([], s)
    | k :: r => let '(v, s1) := cached_call s k in let '(vs, s2) := session s1 r in (v :: vs, s2)
    end.

  Theorem lru_transparent : forall ks s, Inv s -> fst (session s ks) = map f ks /\ Inv (snd (session s ks)).
  Proof.
    induction ks as [|k r IH]; intros s Hs; simpl; [split; [reflexivity|assumption]|].
    destruct (cached_call s k) as [v s1] eqn:E. destruct (cached_call_inv s k v s1 Hs E) as [H1 [H2 _]].
    destruct (session s1 r) as [vs s2] eqn:E2. specialize (IH s1 H1). rewrite E2 in IH. simpl in *.
    destruct IH as [IHa IHb]. split; [congruence|assumption].
  Qed.

  Theorem fail_atomic : forall s k, Inv s -> f k = None -> cached_call s k = (None, s).
  Proof.
    intros s k Hs Hf. destruct (cached_call s k) as [r s'] eqn:E.
    destruct (cached_call_inv s k r s' Hs E) as [_ [H2 H3]]. rewrite H2, Hf, (H3 Hf). reflexivity.
  Qed.

  Lemma inv_empty : forall m, 1 <= m -> Inv {| items := []; maxsize := m |}.
  Proof. intros m Hm. unfold Inv; simpl. repeat split; try lia; [constructor|intros; discriminate]. Qed.
End LRU.

(* non-vacuity: a history longer than the capacity, with evictions, overwrites and a failing compute *)
Definition ex_f (k : nat) : option nat := if k =? 7 then None else Some (k * 10).
Example lru_session_example :
  fst (session nat ex_f {| items := []; maxsize := 2 |} [1; 2; 1; 3; 7; 2; 1; 3]) = map ex_f [1; 2; 1; 3; 7; 2; 1; 3]
  /\ keys nat (items nat (snd (session nat ex_f {| items := []; maxsize := 2 |} [1; 2; 1; 3; 7; 2; 1; 3]))) = [1; 3].
Proof. vm_compute. split; reflexivity. Qed.
