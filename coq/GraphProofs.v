(* GraphProofs.v -- schedule independence of task-graph execution.
   Determinacy, agreement of complete runs, progress, the canonical schedule, and soundness of
   the well-formedness checker (unique keys, closed, acyclic).  Stdlib only, no axioms. *)
From DX Require Import Base Graph.

(* ------------------------------------------------------------------ *)
(* the checker                                                          *)
(* ------------------------------------------------------------------ *)

Lemma memn_In : forall k l, memn k l = true <-> In k l.
Proof.
  unfold memn. intros k l. rewrite existsb_exists. split.
  - intros [x [H1 H2]]. apply Nat.eqb_eq in H2. subst. exact H1.
  - intros H. exists k. split; [exact H|apply Nat.eqb_refl].
Qed.

Lemma memn_false_In : forall k l, memn k l = false <-> ~ In k l.
Proof.
  intros k l. rewrite <- memn_In. destruct (memn k l); split; intros; congruence.
Qed.

Lemma keys_of_app : forall g1 g2, keys_of (g1 ++ g2) = keys_of g1 ++ keys_of g2.
Proof. intros. unfold keys_of. apply map_app. Qed.

Lemma keys_of_cons : forall n g, keys_of (n :: g) = g_key n :: keys_of g.
Proof. reflexivity. Qed.

Lemma in_keys_of : forall n g, In n g -> In (g_key n) (keys_of g).
Proof. intros. unfold keys_of. apply in_map. assumption. Qed.

Lemma ordered_app : forall g1 g2 seen,
  ordered seen (g1 ++ g2) = ordered seen g1 && ordered (rev (keys_of g1) ++ seen) g2.
Proof.
  induction g1 as [|a g1 IH]; intros g2 seen.
  - reflexivity.
  - cbn [app ordered]. rewrite IH. rewrite keys_of_cons. cbn [rev].
    rewrite <- app_assoc. cbn [app]. rewrite !andb_assoc. reflexivity.
Qed.

(* what the certificate order says about one node of the list *)
Lemma ordered_split : forall pre n post,
  ordered [] (pre ++ n :: post) = true ->
  ordered [] pre = true /\
  ~ In (g_key n) (keys_of pre) /\
  (forall d, In d (g_deps n) -> In d (keys_of pre)).
Proof.
  intros pre n post H. rewrite ordered_app in H. rewrite app_nil_r in H.
  cbn [ordered] in H.
  apply andb_true_iff in H. destruct H as [Hpre H].
  apply andb_true_iff in H. destruct H as [H _].
  apply andb_true_iff in H. destruct H as [Hk Hd].
  split; [exact Hpre|]. split.
  - apply negb_true_iff in Hk. apply memn_false_In in Hk.
    intro Hin. apply Hk. apply -> in_rev. exact Hin.
  - intros d Hin. rewrite forallb_forall in Hd. specialize (Hd d Hin).
    apply memn_In in Hd. apply in_rev. exact Hd.
Qed.

Lemma ordered_nodup : forall g seen, ordered seen g = true ->
  NoDup (keys_of g) /\ forall k, In k (keys_of g) -> ~ In k seen.
Proof.
  induction g as [|n r IH]; intros seen H.
  - split; [constructor|]. intros k [].
  - cbn [ordered] in H.
    apply andb_true_iff in H. destruct H as [H Hr].
    apply andb_true_iff in H. destruct H as [Hk _].
    apply negb_true_iff in Hk. apply memn_false_In in Hk.
    destruct (IH _ Hr) as [Hnd Hdis]. rewrite keys_of_cons. split.
    + constructor; [|exact Hnd]. intro Hin. apply (Hdis _ Hin). left. reflexivity.
    + intros k [<-|Hin]; [exact Hk|]. intro Hs. apply (Hdis _ Hin). right. exact Hs.
Qed.

Lemma ordered_closed : forall g, ordered [] g = true ->
  forall n d, In n g -> In d (g_deps n) -> In d (keys_of g).
Proof.
  intros g H n d Hn Hd. destruct (in_split _ _ Hn) as [pre [post ->]].
  destruct (ordered_split _ _ _ H) as [_ [_ Hdeps]].
  rewrite keys_of_app. apply in_or_app. left. apply Hdeps. exact Hd.
Qed.

(* position of a key in the list = its rank *)
Fixpoint idx (k : nat) (l : list nat) : nat :=
  match l with [] => 0 | x :: r => if k =? x then 0 else S (idx k r) end.

Lemma idx_lt : forall k l, In k l -> idx k l < length l.
Proof.
  induction l as [|x r IH]; intros H; [destruct H|].
  cbn [idx length]. destruct (k =? x) eqn:E; [lia|].
  apply Nat.eqb_neq in E. destruct H as [H|H]; [congruence|]. specialize (IH H). lia.
Qed.

Lemma idx_app_in : forall k l l', In k l -> idx k (l ++ l') = idx k l.
Proof.
  induction l as [|x r IH]; intros l' H; [destruct H|].
  cbn [app idx]. destruct (k =? x) eqn:E; [reflexivity|].
  apply Nat.eqb_neq in E. destruct H as [H|H]; [congruence|]. rewrite IH; auto.
Qed.

Lemma idx_app_notin : forall k l l', ~ In k l -> idx k (l ++ l') = length l + idx k l'.
Proof.
  induction l as [|x r IH]; intros l' H; [reflexivity|].
  cbn [app idx length]. destruct (k =? x) eqn:E.
  - apply Nat.eqb_eq in E. subst. exfalso. apply H. left. reflexivity.
  - rewrite IH; [lia|]. intro Hin. apply H. right. exact Hin.
Qed.

Lemma ordered_rank : forall g, ordered [] g = true ->
  forall n d, In n g -> In d (g_deps n) -> idx d (keys_of g) < idx (g_key n) (keys_of g).
Proof.
  intros g H n d Hn Hd. destruct (in_split _ _ Hn) as [pre [post ->]].
  destruct (ordered_split _ _ _ H) as [_ [Hk Hdeps]].
  rewrite keys_of_app, keys_of_cons.
  rewrite idx_app_in by (apply Hdeps; exact Hd).
  rewrite idx_app_notin by exact Hk.
  cbn [idx]. rewrite Nat.eqb_refl.
  pose proof (idx_lt _ _ (Hdeps d Hd)). lia.
Qed.

Lemma wf_check_ordered : forall g outs, wf_check g outs = true -> ordered [] g = true.
Proof. unfold wf_check. intros g outs H. apply andb_true_iff in H. tauto. Qed.

Lemma wf_check_outs : forall g outs, wf_check g outs = true ->
  forall o, In o outs -> In o (keys_of g).
Proof.
  unfold wf_check. intros g outs H o Ho. apply andb_true_iff in H. destruct H as [_ H].
  rewrite forallb_forall in H. apply memn_In. apply H. exact Ho.
Qed.

(* 6. soundness of the checker *)
Theorem wf_closed_acyclic : forall g outs, wf_check g outs = true ->
  NoDup (keys_of g) /\
  (forall n d, In n g -> In d (g_deps n) -> In d (keys_of g)) /\
  (exists rank : nat -> nat, forall n d, In n g -> In d (g_deps n) -> rank d < rank (g_key n)).
Proof.
  intros g outs H. apply wf_check_ordered in H. split; [|split].
  - apply (ordered_nodup g [] H).
  - apply ordered_closed. exact H.
  - exists (fun k => idx k (keys_of g)). apply ordered_rank. exact H.
Qed.

(* node_of does not use the section variables of Graph.v *)
Lemma node_of_In : forall g k n, node_of g k = Some n -> In n g /\ g_key n = k.
Proof.
  induction g as [|m r IH]; intros k n H; [discriminate|].
  cbn [node_of] in H. destruct (k =? g_key m) eqn:E.
  - inversion H; subst. apply Nat.eqb_eq in E. split; [left; reflexivity|congruence].
  - destruct (IH _ _ H). split; [right; assumption|assumption].
Qed.

Lemma node_of_app_notin : forall pre r k, ~ In k (keys_of pre) -> node_of (pre ++ r) k = node_of r k.
Proof.
  induction pre as [|m pre IH]; intros r k H; [reflexivity|].
  cbn [app node_of]. rewrite keys_of_cons in H. destruct (k =? g_key m) eqn:E.
  - apply Nat.eqb_eq in E. exfalso. apply H. left. congruence.
  - apply IH. intro Hin. apply H. right. exact Hin.
Qed.

Lemma node_of_mid : forall pre n post, ~ In (g_key n) (keys_of pre) ->
  node_of (pre ++ n :: post) (g_key n) = Some n.
Proof.
  intros. rewrite node_of_app_notin by assumption. cbn [node_of]. rewrite Nat.eqb_refl. reflexivity.
Qed.

(* ------------------------------------------------------------------ *)
(* scheduling semantics                                                 *)
(* ------------------------------------------------------------------ *)
Section SchedProofs.
  Variable V : Type.
  Variable dV : V.
  Variable fn : nat -> list V -> V.

  Local Notation store := (store V).
  Local Notation lookup := (lookup V).
  Local Notation get := (get V dV).
  Local Notation has := (has V).
  Local Notation ready := (ready V).
  Local Notation fire := (fire V dV fn).
  Local Notation run := (run V dV fn).
  Local Notation complete := (complete V).
  Local Notation canon := (canon V dV fn).

  Lemma has_lookup : forall (st : store) k, has st k = true <-> exists v, lookup k st = Some v.
  Proof.
    intros st k. unfold Graph.has. destruct (lookup k st) as [v|]; split.
    - intros _. exists v. reflexivity.
    - reflexivity.
    - discriminate.
    - intros [v Hv]. discriminate.
  Qed.

  Lemma has_In : forall (st : store) k, has st k = true <-> In k (map fst st).
  Proof.
    intros st k. unfold Graph.has. induction st as [|[k' v] r IH].
    - cbn. split; [discriminate|tauto].
    - cbn [Graph.lookup map fst]. destruct (k =? k') eqn:E.
      + apply Nat.eqb_eq in E. subst. split; [left; reflexivity|reflexivity].
      + apply Nat.eqb_neq in E. rewrite IH. split.
        * intros H. right. exact H.
        * intros [H|H]; [congruence|exact H].
  Qed.

  Lemma get_cons_neq : forall (st : store) k k' v, k <> k' -> get ((k', v) :: st) k = get st k.
  Proof.
    intros st k k' v H. unfold Graph.get. cbn [Graph.lookup].
    apply Nat.eqb_neq in H. rewrite H. reflexivity.
  Qed.

  Lemma canon_snoc : forall g n,
    canon (g ++ [n]) = (g_key n, fn (g_key n) (map (get (canon g)) (g_deps n))) :: canon g.
  Proof. intros. unfold Graph.canon. rewrite fold_left_app. reflexivity. Qed.

  Lemma canon_keys : forall g, map fst (canon g) = rev (keys_of g).
  Proof.
    induction g as [|n g IH] using rev_ind; [reflexivity|].
    rewrite canon_snoc, keys_of_app, rev_app_distr. cbn. rewrite IH. reflexivity.
  Qed.

  Lemma has_canon : forall g k, has (canon g) k = true <-> In k (keys_of g).
  Proof. intros. rewrite has_In, canon_keys. symmetry. apply in_rev. Qed.

  (* characterisation of the canonical store: every node holds fn applied to the canonical
     values of its dependencies *)
  Lemma canon_char : forall g, ordered [] g = true -> forall n, In n g ->
    lookup (g_key n) (canon g) = Some (fn (g_key n) (map (get (canon g)) (g_deps n))).
  Proof.
    induction g as [|x g IH] using rev_ind; intros Hord n Hn; [destruct Hn|].
    destruct (ordered_split _ _ _ Hord) as [Hg [Hkx Hdx]].
    rewrite canon_snoc.
    apply in_app_or in Hn. destruct Hn as [Hn|[<-|[]]].
    - assert (Hne : g_key n <> g_key x).
      { intro E. apply Hkx. rewrite <- E. apply in_keys_of. exact Hn. }
      cbn [Graph.lookup]. apply Nat.eqb_neq in Hne. rewrite Hne. apply Nat.eqb_neq in Hne.
      rewrite (IH Hg n Hn). f_equal. f_equal. apply map_ext_in. intros d Hd.
      symmetry. apply get_cons_neq. intro E. subst d. apply Hkx.
      eapply ordered_closed; eauto.
    - cbn [Graph.lookup]. rewrite Nat.eqb_refl. f_equal. f_equal. apply map_ext_in.
      intros d Hd. symmetry. apply get_cons_neq. intro E. subst d. apply Hkx. apply Hdx. exact Hd.
  Qed.

  (* the invariant of run *)
  Definition agrees (g : graph) (st : store) : Prop :=
    forall k v, lookup k st = Some v -> lookup k (canon g) = Some v.

  Lemma fire_agrees : forall g st k st', ordered [] g = true ->
    agrees g st -> fire g st k = Some st' -> agrees g st'.
  Proof.
    intros g st k st' Hord Hinv Hf. unfold Graph.fire in Hf.
    destruct (node_of g k) as [n|] eqn:En; [|discriminate].
    destruct (Graph.ready V g st k) eqn:Er; [|discriminate].
    inversion Hf; subst st'; clear Hf.
    destruct (node_of_In _ _ _ En) as [Hn Hk].
    unfold Graph.ready in Er. rewrite En in Er.
    apply andb_true_iff in Er. destruct Er as [_ Hdeps]. rewrite forallb_forall in Hdeps.
    intros k' v Hl. cbn [Graph.lookup] in Hl. destruct (k' =? k) eqn:E.
    - apply Nat.eqb_eq in E. subst k'. inversion Hl; subst v; clear Hl.
      rewrite <- Hk. rewrite (canon_char _ Hord n Hn). f_equal. f_equal.
      apply map_ext_in. intros d Hd. specialize (Hdeps d Hd).
      apply has_lookup in Hdeps. destruct Hdeps as [w Hw].
      unfold Graph.get. rewrite (Hinv _ _ Hw), Hw. reflexivity.
    - apply Hinv. exact Hl.
  Qed.

  Lemma run_agrees : forall g ks st st', ordered [] g = true ->
    agrees g st -> run g st ks = Some st' -> agrees g st'.
  Proof.
    intros g ks. induction ks as [|k r IH]; intros st st' Hord Hinv Hr.
    - cbn in Hr. inversion Hr; subst. exact Hinv.
    - cbn [Graph.run] in Hr. destruct (fire g st k) as [st1|] eqn:Ef; [|discriminate].
      eapply IH; [exact Hord| |exact Hr]. eapply fire_agrees; eauto.
  Qed.

  (* 1. Determinacy *)
  Theorem determinacy : forall (g : graph) outs ks st,
    wf_check g outs = true -> run g [] ks = Some st ->
    forall k v, lookup k st = Some v -> lookup k (canon g) = Some v.
  Proof.
    intros g outs ks st Hwf Hr. apply wf_check_ordered in Hwf.
    change (agrees g st). eapply run_agrees; [exact Hwf| |exact Hr].
    intros k v H. discriminate.
  Qed.

  Lemma complete_has : forall g (st : store), complete g st = true ->
    forall k, In k (keys_of g) -> exists v, lookup k st = Some v.
  Proof.
    intros g st H k Hk. unfold Graph.complete in H. rewrite forallb_forall in H.
    apply has_lookup. apply H. exact Hk.
  Qed.

  (* 2. two complete runs agree on every key (and both agree with canon) *)
  Theorem complete_run_canon : forall g outs ks st,
    wf_check g outs = true -> run g [] ks = Some st -> complete g st = true ->
    forall k, In k (keys_of g) -> lookup k st = lookup k (canon g).
  Proof.
    intros g outs ks st Hwf Hr Hc k Hk.
    destruct (complete_has _ _ Hc k Hk) as [v Hv].
    rewrite Hv. symmetry. eapply determinacy; eauto.
  Qed.

  Theorem complete_runs_agree : forall g outs ks1 ks2 st1 st2,
    wf_check g outs = true -> run g [] ks1 = Some st1 -> run g [] ks2 = Some st2 ->
    complete g st1 = true -> complete g st2 = true ->
    forall k, In k (keys_of g) -> lookup k st1 = lookup k st2.
  Proof.
    intros g outs ks1 ks2 st1 st2 Hwf H1 H2 C1 C2 k Hk.
    rewrite (complete_run_canon _ _ _ _ Hwf H1 C1 k Hk).
    rewrite (complete_run_canon _ _ _ _ Hwf H2 C2 k Hk). reflexivity.
  Qed.

  (* first node, in list order, whose key has no value yet *)
  Lemma first_missing : forall (st : store) g, forallb (has st) (keys_of g) = false ->
    exists pre n post, g = pre ++ n :: post /\
      (forall k, In k (keys_of pre) -> has st k = true) /\ has st (g_key n) = false.
  Proof.
    intros st. induction g as [|m r IH]; intros H; [discriminate|].
    rewrite keys_of_cons in H. cbn [forallb] in H.
    destruct (has st (g_key m)) eqn:Em.
    - cbn [andb] in H. destruct (IH H) as [pre [n [post [-> [Hpre Hn]]]]].
      exists (m :: pre), n, post. split; [reflexivity|]. split; [|exact Hn].
      intros k Hk. rewrite keys_of_cons in Hk. destruct Hk as [<-|Hk]; [exact Em|apply Hpre; exact Hk].
    - exists [], m, r. split; [reflexivity|]. split; [intros k []|exact Em].
  Qed.

  (* progress holds in ANY incomplete state of a well-formed graph (reachable or not) *)
  Lemma progress_any : forall g (st : store), ordered [] g = true -> complete g st = false ->
    exists k, ready g st k = true.
  Proof.
    intros g st Hord Hc. unfold Graph.complete in Hc.
    destruct (first_missing _ _ Hc) as [pre [n [post [-> [Hpre Hn]]]]].
    destruct (ordered_split _ _ _ Hord) as [_ [Hk Hdeps]].
    exists (g_key n). unfold Graph.ready. rewrite (node_of_mid _ _ _ Hk).
    rewrite Hn. cbn [negb andb]. apply forallb_forall. intros d Hd.
    apply Hpre. apply Hdeps. exact Hd.
  Qed.

  (* 3. Progress / no deadlock *)
  Theorem progress : forall g outs ks st,
    wf_check g outs = true -> run g [] ks = Some st -> complete g st = false ->
    exists k, ready g st k = true.
  Proof.
    intros g outs ks st Hwf _ Hc. apply progress_any; [|exact Hc].
    eapply wf_check_ordered; eauto.
  Qed.

  (* a ready task can actually be fired, so progress is a real step *)
  Lemma ready_fire : forall g st k, ready g st k = true -> exists st', fire g st k = Some st'.
  Proof.
    intros g st k H. unfold Graph.fire. pose proof H as H'. unfold Graph.ready in H'.
    destruct (node_of g k) as [n|]; [|discriminate]. rewrite H. eexists. reflexivity.
  Qed.

  Lemma run_app : forall g ks1 ks2 st,
    run g st (ks1 ++ ks2) = match run g st ks1 with Some st' => run g st' ks2 | None => None end.
  Proof.
    intros g. induction ks1 as [|k r IH]; intros ks2 st; [reflexivity|].
    cbn [app Graph.run]. destruct (fire g st k); [apply IH|reflexivity].
  Qed.

  Lemma canon_prefix_run : forall pre post, ordered [] (pre ++ post) = true ->
    run (pre ++ post) [] (keys_of pre) = Some (canon pre).
  Proof.
    induction pre as [|n pre IH] using rev_ind; intros post Hord; [reflexivity|].
    rewrite <- app_assoc in *. cbn [app] in *.
    rewrite keys_of_app, run_app, (IH _ Hord).
    destruct (ordered_split _ _ _ Hord) as [_ [Hk Hdeps]].
    cbn [keys_of map Graph.run]. unfold Graph.fire, Graph.ready.
    rewrite (node_of_mid _ _ _ Hk).
    assert (Hh : has (canon pre) (g_key n) = false).
    { destruct (has (canon pre) (g_key n)) eqn:E; [|reflexivity].
      apply has_canon in E. contradiction. }
    rewrite Hh. cbn [negb andb].
    assert (Hd : forallb (has (canon pre)) (g_deps n) = true).
    { apply forallb_forall. intros d Hd. apply has_canon. apply Hdeps. exact Hd. }
    rewrite Hd. rewrite canon_snoc. reflexivity.
  Qed.

  (* 4. the list order is a valid complete schedule; every requested output gets a value *)
  Theorem canon_schedule : forall g outs, wf_check g outs = true ->
    run g [] (keys_of g) = Some (canon g) /\ complete g (canon g) = true /\
    forall o, In o outs -> has (canon g) o = true.
  Proof.
    intros g outs Hwf. split; [|split].
    - pose proof (canon_prefix_run g [] ) as H. rewrite app_nil_r in H. apply H.
      eapply wf_check_ordered; eauto.
    - unfold Graph.complete. apply forallb_forall. intros k Hk. apply has_canon. exact Hk.
    - intros o Ho. apply has_canon. eapply wf_check_outs; eauto.
  Qed.

  (* 5. repeatability: executing the same graph twice, under whatever two schedules the
     workers happen to produce, yields the same value for every requested output *)
  Corollary repeatability : forall g outs ks1 ks2 st1 st2,
    wf_check g outs = true -> run g [] ks1 = Some st1 -> run g [] ks2 = Some st2 ->
    complete g st1 = true -> complete g st2 = true ->
    forall o, In o outs ->
      lookup o st1 = lookup o st2 /\ get st1 o = get st2 o /\ has st1 o = true.
  Proof.
    intros g outs ks1 ks2 st1 st2 Hwf H1 H2 C1 C2 o Ho.
    pose proof (wf_check_outs _ _ Hwf o Ho) as Hk.
    pose proof (complete_runs_agree _ _ _ _ _ _ Hwf H1 H2 C1 C2 o Hk) as E.
    split; [exact E|]. split.
    - unfold Graph.get. rewrite E. reflexivity.
    - apply has_lookup. eapply complete_has; eauto.
  Qed.

  (* a complete run always exists and any schedule can be extended: from a reachable
     incomplete state one more task can be committed *)
  Corollary no_deadlock_step : forall g outs ks st,
    wf_check g outs = true -> run g [] ks = Some st -> complete g st = false ->
    exists k st', run g [] (ks ++ [k]) = Some st'.
  Proof.
    intros g outs ks st Hwf Hr Hc. destruct (progress _ _ _ _ Hwf Hr Hc) as [k Hk].
    destruct (ready_fire _ _ _ Hk) as [st' Hf]. exists k, st'.
    rewrite run_app, Hr. cbn [Graph.run]. rewrite Hf. reflexivity.
  Qed.
End SchedProofs.

(* ------------------------------------------------------------------ *)
(* non-vacuity: a diamond graph  0 -> {1,2} -> 3                         *)
(* ------------------------------------------------------------------ *)
Definition diamond : graph :=
  [ {| g_key := 0; g_deps := [] |};
    {| g_key := 1; g_deps := [0] |};
    {| g_key := 2; g_deps := [0] |};
    {| g_key := 3; g_deps := [1; 2] |} ].
(* each task: 10 * key + 1 + sum of its inputs (so values depend on key and on inputs) *)
Definition dfn (k : nat) (vs : list nat) : nat := 10 * k + 1 + sumN vs.

Example diamond_wf : wf_check diamond [3] = true.
Proof. reflexivity. Qed.

Example diamond_two_schedules :
  exists st1 st2,
    run nat 0 dfn diamond [] [0; 1; 2; 3] = Some st1 /\
    run nat 0 dfn diamond [] [0; 2; 1; 3] = Some st2 /\
    complete nat diamond st1 = true /\ complete nat diamond st2 = true /\
    st1 <> st2 /\                                  (* different commit orders ... *)
    lookup nat 3 st1 = Some 65 /\ lookup nat 3 st2 = Some 65.   (* ... same values *)
Proof.
  eexists. eexists.
  split; [vm_compute; reflexivity|]. split; [vm_compute; reflexivity|].
  split; [reflexivity|]. split; [reflexivity|]. split; [discriminate|].
  split; reflexivity.
Qed.

(* a schedule that violates the dependencies is rejected, and a cyclic / dangling graph fails the check *)
Example diamond_bad_schedule : run nat 0 dfn diamond [] [0; 3; 1; 2] = None.
Proof. reflexivity. Qed.
Example cyclic_rejected :
  wf_check [ {| g_key := 0; g_deps := [1] |}; {| g_key := 1; g_deps := [0] |} ] [1] = false.
Proof. reflexivity. Qed.
Example diamond_agree : forall k, In k (keys_of diamond) ->
  lookup nat k (canon nat 0 dfn diamond) =
  match run nat 0 dfn diamond [] [0; 2; 1; 3] with Some st => lookup nat k st | None => None end.
Proof.
  intros k Hk. cbn in Hk. destruct Hk as [<-|[<-|[<-|[<-|[]]]]]; reflexivity.
Qed.

Print Assumptions determinacy.
Print Assumptions complete_runs_agree.
Print Assumptions progress.
Print Assumptions canon_schedule.
Print Assumptions repeatability.
Print Assumptions wf_closed_acyclic.
Print Assumptions no_deadlock_step.
Print Assumptions diamond_two_schedules.
