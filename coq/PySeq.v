(* PySeq.v -- the fragment of Python's sequence semantics that harness/gen_source.py (T-SRC) translates method bodies
   into: indexing with negative indices, slicing with clamping, len, range.  Hand-written, stdlib only.
   Out-of-range indexing raises IndexError in Python; here it returns a default, so every statement about a generated
   function carries explicit in-range hypotheses. *)
From Coq Require Import ZArith List Bool Lia ZifyBool.
Import ListNotations.
Open Scope Z_scope.

Definition py_len {A : Type} (l : list A) : Z := Z.of_nat (length l).

(* negative indices count from the end *)
Definition py_norm {A : Type} (l : list A) (i : Z) : Z := if i <? 0 then py_len l + i else i.

Definition py_index {A : Type} (d : A) (l : list A) (i : Z) : A :=
  let j := py_norm l i in if j <? 0 then d else nth (Z.to_nat j) l d.

(* slice bounds are clamped into [0, len] *)
Definition py_clamp {A : Type} (l : list A) (i : Z) : nat :=
  let j := py_norm l i in if j <? 0 then 0%nat else Nat.min (Z.to_nat j) (length l).

Definition py_slice {A : Type} (l : list A) (lo hi : option Z) : list A :=
  let a := match lo with None => 0%nat | Some i => py_clamp l i end in
  let b := match hi with None => length l | Some i => py_clamp l i end in
  firstn (b - a) (skipn a l).

Definition py_range (n : Z) : list Z := map Z.of_nat (seq 0 (Z.to_nat n)).

(* `x is None` for an element of a sequence of known (integer) values *)
Definition py_is_none_Z (x : Z) : bool := false.

(* what a _divisions() method returns: a tuple of values, or (None,) * n *)
Inductive pydivs := Known (l : list Z) | Unknown (n : Z).

(* ---- characterising lemmas (the interface later proofs use) ---- *)
Lemma py_index_nonneg : forall (A : Type) (d : A) (l : list A) (i : Z),
  0 <= i -> py_index d l i = nth (Z.to_nat i) l d.
Proof. intros A d l i H. unfold py_index, py_norm. destruct (i <? 0) eqn:E; [lia|]. rewrite E. reflexivity. Qed.

Lemma py_index_nat : forall (A : Type) (d : A) (l : list A) (n : nat),
  py_index d l (Z.of_nat n) = nth n l d.
Proof. intros. rewrite py_index_nonneg by lia. rewrite Nat2Z.id. reflexivity. Qed.

Lemma py_index_neg : forall (A : Type) (d : A) (l : list A) (k : nat),
  (1 <= k <= length l)%nat -> py_index d l (- Z.of_nat k) = nth (length l - k) l d.
Proof.
  intros A d l k H. unfold py_index, py_norm, py_len.
  destruct (- Z.of_nat k <? 0) eqn:E; [|lia].
  destruct (Z.of_nat (length l) + - Z.of_nat k <? 0) eqn:E2; [lia|].
  f_equal. lia.
Qed.

Lemma last_nth_len : forall (A : Type) (l : list A) (d : A), last l d = nth (length l - 1) l d.
Proof.
  intros A l d. induction l as [|a l IH]; [reflexivity|].
  destruct l as [|b l]; [reflexivity|].
  change (last (a :: b :: l) d) with (last (b :: l) d). rewrite IH.
  simpl length. replace (S (S (length l)) - 1)%nat with (S (length l)) by lia.
  replace (S (length l) - 1)%nat with (length l) by lia. reflexivity.
Qed.

Lemma py_index_last : forall (l : list Z), l <> [] -> py_index 0 l (-1) = last l 0.
Proof.
  intros l H. change (-1) with (- Z.of_nat 1). rewrite py_index_neg.
  - symmetry. apply last_nth_len.
  - destruct l; [congruence|simpl; lia].
Qed.

Lemma py_slice_to : forall (A : Type) (l : list A) (k : nat),
  py_slice l None (Some (Z.of_nat k)) = firstn k l.
Proof.
  intros. unfold py_slice, py_clamp, py_norm. destruct (Z.of_nat k <? 0) eqn:E; [lia|]. rewrite E.
  rewrite Nat2Z.id, Nat.sub_0_r. simpl skipn.
  destruct (Nat.le_ge_cases k (length l)).
  - rewrite Nat.min_l by lia. reflexivity.
  - rewrite Nat.min_r by lia. rewrite !firstn_all2 by lia. reflexivity.
Qed.

Lemma py_slice_from_end : forall (A : Type) (l : list A) (k : nat),
  (1 <= k)%nat -> py_slice l (Some (- Z.of_nat k)) None = skipn (length l - k) l.
Proof.
  intros A l k Hk. unfold py_slice, py_clamp, py_norm, py_len.
  destruct (- Z.of_nat k <? 0) eqn:E; [|lia].
  destruct (Z.of_nat (length l) + - Z.of_nat k <? 0) eqn:E2.
  - replace (length l - k)%nat with 0%nat by lia. simpl. rewrite Nat.sub_0_r. apply firstn_all.
  - replace (Z.to_nat (Z.of_nat (length l) + - Z.of_nat k)) with (length l - k)%nat by lia.
    rewrite Nat.min_l by lia. apply firstn_all2. rewrite skipn_length. lia.
Qed.

Lemma py_clamp_m1 : forall (A : Type) (l : list A), py_clamp l (-1) = (length l - 1)%nat.
Proof.
  intros A l. unfold py_clamp, py_norm, py_len.
  change (-1 <? 0) with true. cbv iota zeta.
  destruct (Z.of_nat (length l) + -1 <? 0) eqn:E.
  - apply Z.ltb_lt in E. lia.
  - apply Z.ltb_ge in E. rewrite Nat.min_l; lia.
Qed.

Lemma py_slice_drop_last : forall (A : Type) (l : list A),
  py_slice l None (Some (-1)) = removelast l.
Proof.
  intros A l. unfold py_slice. rewrite py_clamp_m1. rewrite Nat.sub_0_r. simpl skipn.
  rewrite removelast_firstn_len. f_equal. lia.
Qed.

Lemma py_slice_from : forall (A : Type) (l : list A) (k : nat),
  py_slice l (Some (Z.of_nat k)) None = skipn k l.
Proof.
  intros. unfold py_slice, py_clamp, py_norm. destruct (Z.of_nat k <? 0) eqn:E; [lia|]. rewrite E. rewrite Nat2Z.id.
  destruct (Nat.le_ge_cases k (length l)).
  - rewrite Nat.min_l by lia. apply firstn_all2. rewrite skipn_length. lia.
  - rewrite Nat.min_r by lia. rewrite Nat.sub_diag. simpl. rewrite skipn_all2 by lia. reflexivity.
Qed.

Lemma py_range_nat : forall n : nat, py_range (Z.of_nat n) = map Z.of_nat (seq 0 n).
Proof. intros. unfold py_range. rewrite Nat2Z.id. reflexivity. Qed.
