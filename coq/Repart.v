(* Repart.v -- executable model of dask_expr/_repartition.py
     RepartitionDivisions._layer      -> repart_plan  (line-by-line mirror, loops on fuel)
     RepartitionToFewer._layer        -> fewer_ranges
     RepartitionToMore._nsplits/_layer-> more_nsplits / more_layer
     _clean_new_division_boundaries   -> clean_boundaries
   Model only (no proofs here) so that it still runs when a proof breaks.
   Index values are Z; the code only compares them (<, >, ==), so any totally ordered index
   type embeds.  None = the real code raises. *)
From DX Require Import Base.

Open Scope Z_scope.

Record slice := { s_src : nat; s_lo : Z; s_hi : Z; s_closed : bool }.
Inductive outp := ODummy | OAlias (k : nat) | OConcat (ks : list nat).
Record plan := { p_slices : list slice; p_outs : list outp }.

Definition nthZ (l : list Z) (i : nat) : Z := nth i l 0.
Definition lastZ (l : list Z) : Z := last l 0.
Definition single_last (x : list Z) : bool :=
  (2 <=? length x)%nat && (nthZ x (length x - 1) =? nthZ x (length x - 2)).

(* validation prologue: Some tt = accepted *)
Definition repart_validate (a b : list Z) (force : bool) : bool :=
  (2 <=? length b)%nat &&
  (if force then negb (nthZ a 0 <? nthZ b 0) && negb (lastZ a >? lastZ b)
   else (nthZ a 0 =? nthZ b 0) && (lastZ a =? lastZ b)).

Record st1 := { i1 : nat; j1 : nat; low1 : Z; c1 : list Z; d1 : list slice }.

(* first while loop: `while i < len(a) and j < len(b)` *)
Fixpoint phase1 (fuel : nat) (a b : list Z) (s : st1) : st1 :=
  match fuel with
  | O => s
  | S f =>
      let i := i1 s in let j := j1 s in
      if ((i <? length a)%nat && (j <? length b)%nat)%bool then
        let ai := nthZ a i in let bj := nthZ b j in
        let s' :=
          if ai <? bj then
            {| i1 := S i; j1 := j; low1 := ai; c1 := c1 s ++ [ai];
               d1 := d1 s ++ [{| s_src := i - 1; s_lo := low1 s; s_hi := ai; s_closed := false |}] |}
          else if ai >? bj then
            {| i1 := i; j1 := S j; low1 := bj; c1 := c1 s ++ [bj];
               d1 := d1 s ++ [{| s_src := i - 1; s_lo := low1 s; s_hi := bj; s_closed := false |}] |}
          else
            {| i1 := S i;
               j1 := if ((length a =? i + 1)%nat || (ai <? nthZ a (i + 1)))%bool then S j else j;
               low1 := bj; c1 := c1 s ++ [bj];
               d1 := d1 s ++ [{| s_src := i - 1; s_lo := low1 s; s_hi := bj; s_closed := false |}] |}
        in phase1 f a b s'
      else s
  end.

(* `for _j in range(j, len(b))`: always the right-most old partition *)
Fixpoint tail_right (a : list Z) (bs : list Z) (low : Z) (c : list Z) (d : list slice) : Z * list Z * list slice :=
  match bs with
  | [] => (low, c, d)
  | bj :: r =>
      tail_right a r bj (c ++ [bj])
        (d ++ [{| s_src := length a - 2; s_lo := low; s_hi := bj; s_closed := false |}])
  end.

Definition close_last (d : list slice) : list slice :=
  match rev d with
  | [] => []
  | x :: r => rev r ++ [{| s_src := s_src x; s_lo := s_lo x; s_hi := s_hi x; s_closed := true |}]
  end.

(* second phase: for each new partition collect the temp slices.  c[i] out of range = IndexError = None *)
Fixpoint collect_lt (fuel : nat) (c : list Z) (bj : Z) (i : nat) (tmp : list nat) : option (nat * list nat) :=
  match fuel with
  | O => None
  | S f =>
      match nth_error c i with
      | None => None
      | Some ci => if ci <? bj then collect_lt f c bj (S i) (tmp ++ [i]) else Some (i, tmp)
      end
  end.

Fixpoint collect_last (fuel : nat) (c : list Z) (b : list Z) (last_elem : bool) (jlast : bool) (k : nat)
         (i : nat) (tmp : list nat) : option (nat * list nat) :=
  match fuel with
  | O => None
  | S f =>
      if last_elem then
        match nth_error c i with
        | None => None
        | Some ci =>
            if ((ci =? lastZ b) && (negb (lastZ b =? nthZ b (length b - 2)) || jlast) && (i <? k)%nat)%bool
            then collect_last f c b last_elem jlast k (S i) (tmp ++ [i])
            else Some (i, tmp)
        end
      else Some (i, tmp)
  end.

Fixpoint phase2 (c b : list Z) (last_elem : bool) (k : nat) (js : list nat) (i : nat) (outs : list outp)
  : option (list outp) :=
  match js with
  | [] => Some outs
  | j :: r =>
      match collect_lt (S (length c)) c (nthZ b j) i [] with
      | None => None
      | Some (i', tmp) =>
          match collect_last (S (length c)) c b last_elem (j =? length b - 1)%nat k i' tmp with
          | None => None
          | Some (i'', tmp') =>
              let o := match tmp' with [] => ODummy | [x] => OAlias x | _ => OConcat tmp' end in
              phase2 c b last_elem k r i'' (outs ++ [o])
          end
      end
  end.

Definition repart_plan (a b : list Z) (force : bool) : option plan :=
  if negb (repart_validate a b force) then None else
  let low0 := Z.min (nthZ a 0) (nthZ b 0) in
  let s0 := {| i1 := 1; j1 := 1; low1 := low0; c1 := [low0]; d1 := [] |} in
  let s := phase1 (length a + length b) a b s0 in
  let last_elem_a := single_last a in
  let '(c, d) :=
    if ((lastZ a <? lastZ b) || (lastZ b =? nthZ b (length b - 2)))%bool then
      let '(_, c, d) := tail_right a (skipn (j1 s) b) (low1 s) (c1 s) (d1 s) in (c, d)
    else
      let d := if (last_elem_a && (i1 s <? length a)%nat)%bool
               then d1 s ++ [{| s_src := i1 s - 1; s_lo := nthZ a (i1 s); s_hi := nthZ a (i1 s); s_closed := false |}]
               else d1 s in
      (c1 s ++ [lastZ a], d) in
  let k := length d in
  match k with
  | O => None   (* d[(out1, k-1)] KeyError *)
  | _ =>
    let d' := close_last d in
    match phase2 c b (single_last c) k (seq 1 (length b - 1)) 0 [] with
    | None => None
    | Some outs => Some {| p_slices := d'; p_outs := outs |}
    end
  end.

(* ---- semantics of a plan on data ------------------------------------------------------ *)
Section Exec.
  Variable row : Type.
  Variable idx : row -> Z.
  Definition in_slice (s : slice) (x : Z) : bool :=
    (s_lo s <=? x) && ((x <? s_hi s) || (s_closed s && (x =? s_hi s))).
  (* methods.boundary_slice(df, lo, hi, right_boundary=closed) on an index-sorted partition *)
  Definition exec_slice (P : list (list row)) (s : slice) : list row :=
    filter (fun r => in_slice s (idx r)) (nth (s_src s) P []).
  Definition exec_out (P : list (list row)) (sl : list slice) (o : outp) : list row :=
    match o with
    | ODummy => []
    | OAlias k => match nth_error sl k with Some s => exec_slice P s | None => [] end
    | OConcat ks => flat_map (fun k => match nth_error sl k with Some s => exec_slice P s | None => [] end) ks
    end.
  Definition exec_plan (P : list (list row)) (pl : plan) : list (list row) :=
    map (exec_out P (p_slices pl)) (p_outs pl).

  (* what output partition j must contain: rows with b_j <= idx < b_{j+1} (<= for the last) *)
  Definition in_target (b : list Z) (j : nat) (x : Z) : bool :=
    (nthZ b j <=? x) && ((x <? nthZ b (S j)) || ((S (S j) =? length b)%nat && (x =? nthZ b (S j)))).
  Definition spec_out (b : list Z) (P : list (list row)) (j : nat) : list row :=
    filter (fun r => in_target b j (idx r)) (concat P).
  Definition spec_plan (b : list Z) (P : list (list row)) : list (list row) :=
    map (spec_out b P) (seq 0 (length b - 1)).

  (* input invariant: partition i only holds index values in [a_i, a_{i+1}) (closed for the last) *)
  Definition respects (a : list Z) (P : list (list row)) : Prop :=
    length P = (length a - 1)%nat /\
    forall i r, In r (nth i P []) -> in_target a i (idx r) = true.
  Fixpoint sortedZ (l : list Z) : Prop :=
    match l with [] => True | x :: r => (match r with [] => True | y :: _ => x <= y end) /\ sortedZ r end.
  Definition parts_sorted (P : list (list row)) : Prop := forall p, In p P -> sortedZ (map idx p).
End Exec.

(* divisions vectors as dask guarantees them: non-decreasing, strictly increasing except that the
   last value may be repeated once *)
Fixpoint strict_incr (l : list Z) : bool :=
  match l with [] => true | x :: r => (match r with [] => true | y :: _ => x <? y end) && strict_incr r end.
Definition valid_divs (l : list Z) : bool :=
  (2 <=? length l)%nat &&
  (strict_incr l || (strict_incr (removelast l) && (lastZ l =? lastZ (removelast l)))).

Close Scope Z_scope.

(* ---- count-based repartitioning ------------------------------------------------------- *)
Definition clean_boundaries (bs : list nat) (n : nat) : list nat :=
  let bs1 := match bs with b0 :: _ => if 0 <? b0 then 0 :: bs else bs | [] => bs end in
  if last bs1 0 <? n then removelast bs1 ++ [n] else bs1.

Fixpoint ranges (bs : list nat) : list (nat * nat) :=
  match bs with
  | s :: ((e :: _) as r) => (s, e) :: ranges r
  | _ => []
  end.
(* RepartitionToFewer._layer: output i = _concat of input partitions [start, end) *)
Definition fewer_ranges (bs : list nat) : list (list nat) :=
  map (fun se => seq (fst se) (snd se - fst se)) (ranges bs).
Definition exec_fewer {row} (bs : list nat) (P : list (list row)) : list (list row) :=
  map (fun js => flat_map (fun j => nth j P []) js) (fewer_ranges bs).

(* RepartitionToMore._nsplits *)
Definition more_nsplits (n_in n_out : nat) : list nat :=
  match n_in with
  | O => []
  | S m => repeat (n_out / n_in) m ++ [n_out / n_in + n_out mod n_in]
  end.
Inductive mtask := MAlias (i : nat) | MPiece (i jj : nat).     (* (df,i)  |  getitem (split,i) jj *)
Definition more_layer (nsplits : list nat) : list mtask :=
  flat_map (fun ik => let '(i, k) := ik in
                      if k =? 1 then [MAlias i] else map (fun jj => MPiece i jj) (seq 0 k))
           (combine (seq 0 (length nsplits)) nsplits).
