(* Plan.v -- executable model of the dask-expr plan language, its denotation on tables,
   static schemas, substitution and the translation-validation checker [rule_ok].
   No proofs here (see PlanProofs.v). *)
From DX Require Import Base.

(* ------------------------------------------------------------------ *)
(** * Syntax *)

Definition col := nat.
Inductive bop := BAdd | BSub | BMul | BLt | BLe | BGt | BGe | BEq | BNe | BAnd | BOr.
Inductive uop := UNeg | UAbs | UIsNa | UNotNull | UInvert.

Inductive expr :=
| Src    (id : nat) (cs : list col)
| SrcS   (id : nat) (c : col)
| Proj   (e : expr) (cs : list col)
| ProjS  (e : expr) (c : col)
| Filter (e p : expr)
| BinL   (o : bop) (e : expr) (z : Z)
| BinR   (o : bop) (z : Z) (e : expr)
| Bin    (o : bop) (a b : expr)
| Un     (u : uop) (e : expr)
| Fillna (e : expr) (z : Z)
| Assign (e : expr) (k : col) (v : expr)
| Rename (e : expr) (m : list (col * col))
| RSum (e : expr) | RCount (e : expr) | RLen (e : expr).

(* ------------------------------------------------------------------ *)
(** * Cells *)

Definition cell := option Z.

Definition truthy (c : cell) : bool :=
  match c with Some z => negb (Z.eqb z 0) | None => false end.
Definition bcell (b : bool) : cell := Some (if b then 1%Z else 0%Z).
Definition cmp (f : Z -> Z -> bool) (na : bool) (a b : cell) : cell :=
  match a, b with Some x, Some y => bcell (f x y) | _, _ => bcell na end.
Definition arith (f : Z -> Z -> Z) (a b : cell) : cell :=
  match a, b with Some x, Some y => Some (f x y) | _, _ => None end.

Definition bop_fun (o : bop) : cell -> cell -> cell :=
  match o with
  | BAdd => arith Z.add | BSub => arith Z.sub | BMul => arith Z.mul
  | BLt => cmp Z.ltb false | BLe => cmp Z.leb false
  | BGt => cmp Z.gtb false | BGe => cmp Z.geb false
  | BEq => cmp Z.eqb false
  | BNe => cmp (fun x y => negb (Z.eqb x y)) true
  | BAnd => fun a b => bcell (truthy a && truthy b)
  | BOr  => fun a b => bcell (truthy a || truthy b)
  end.

Definition uop_fun (u : uop) : cell -> cell :=
  match u with
  | UNeg => option_map Z.opp
  | UAbs => option_map Z.abs
  | UIsNa => fun c => bcell (match c with None => true | Some _ => false end)
  | UNotNull => fun c => bcell (match c with None => false | Some _ => true end)
  | UInvert => fun c => bcell (negb (truthy c))
  end.

Definition fillna_fun (z : Z) (c : cell) : cell :=
  match c with None => Some z | Some _ => c end.

(* ------------------------------------------------------------------ *)
(** * Objects *)

Inductive obj :=
| OFrame (cs : list col) (rows : list (nat * list cell))
| OSeries (rows : list (nat * cell))
| OScalar (c : cell)
| ORow (cs : list col) (vals : list cell).

Definition env := nat -> option (list col * list (nat * list cell)).

(* column-list utilities *)
Fixpoint memb (c : col) (l : list col) : bool :=
  match l with [] => false | x :: r => Nat.eqb c x || memb c r end.
Fixpoint nodupb (l : list col) : bool :=
  match l with [] => true | x :: r => negb (memb x r) && nodupb r end.
Definition subsetb (a b : list col) : bool := forallb (fun c => memb c b) a.
Fixpoint list_eqb (a b : list nat) : bool :=
  match a, b with
  | [], [] => true
  | x :: a', y :: b' => Nat.eqb x y && list_eqb a' b'
  | _, _ => false
  end.

(* value of column c in a row given in column order cs (missing if absent) *)
Fixpoint sel (cs : list col) (vals : list cell) (c : col) : cell :=
  match cs, vals with
  | x :: cs', v :: vals' => if Nat.eqb c x then v else sel cs' vals' c
  | _, _ => None
  end.

Fixpoint map2 {A B C} (f : A -> B -> C) (l1 : list A) (l2 : list B) : list C :=
  match l1, l2 with
  | a :: l1', b :: l2' => f a b :: map2 f l1' l2'
  | _, _ => []
  end.

(* keep the positions of l whose mask bit is true *)
Fixpoint fmask {A} (m : list bool) (l : list A) : list A :=
  match m, l with
  | b :: m', a :: l' => if b then a :: fmask m' l' else fmask m' l'
  | _, _ => []
  end.

Definition rids {A} (rows : list (nat * A)) : list nat := map (@fst nat A) rows.

Definition bind {A B} (x : option A) (f : A -> option B) : option B :=
  match x with Some a => f a | None => None end.

(* ------------------------------------------------------------------ *)
(** * Operations on objects *)

Definition proj_row (cs c : list col) (r : nat * list cell) : nat * list cell :=
  (fst r, map (sel cs (snd r)) c).

Definition o_proj (c : list col) (o : obj) : option obj :=
  match o with
  | OFrame cs rows =>
      if nodupb c && subsetb c cs then Some (OFrame c (map (proj_row cs c) rows)) else None
  | _ => None
  end.

Definition o_projs (c : col) (o : obj) : option obj :=
  match o with
  | OFrame cs rows =>
      if memb c cs then Some (OSeries (map (fun r => (fst r, sel cs (snd r) c)) rows)) else None
  | _ => None
  end.

Definition o_map (f : cell -> cell) (o : obj) : obj :=
  match o with
  | OFrame cs rows => OFrame cs (map (fun r => (fst r, map f (snd r))) rows)
  | OSeries rows => OSeries (map (fun r => (fst r, f (snd r))) rows)
  | OScalar c => OScalar (f c)
  | ORow cs vals => ORow cs (map f vals)
  end.

Definition pmask (ps : list (nat * cell)) : list bool := map (fun r => truthy (snd r)) ps.

Definition o_filter (o p : obj) : option obj :=
  match o, p with
  | OFrame cs rows, OSeries ps =>
      if list_eqb (rids rows) (rids ps) then Some (OFrame cs (fmask (pmask ps) rows)) else None
  | OSeries rows, OSeries ps =>
      if list_eqb (rids rows) (rids ps) then Some (OSeries (fmask (pmask ps) rows)) else None
  | _, _ => None
  end.

Definition o_bin (f : cell -> cell -> cell) (a b : obj) : option obj :=
  match a, b with
  | OFrame cs1 r1, OFrame cs2 r2 =>
      if list_eqb cs1 cs2 && list_eqb (rids r1) (rids r2)
      then Some (OFrame cs1 (map2 (fun x y => (fst x, map2 f (snd x) (snd y))) r1 r2))
      else None
  | OSeries r1, OSeries r2 =>
      if list_eqb (rids r1) (rids r2)
      then Some (OSeries (map2 (fun x y => (fst x, f (snd x) (snd y))) r1 r2))
      else None
  | OScalar c1, OScalar c2 => Some (OScalar (f c1 c2))
  | OFrame _ _, OScalar c | OSeries _, OScalar c => Some (o_map (fun x => f x c) a)
  | OScalar c, OFrame _ _ | OScalar c, OSeries _ => Some (o_map (fun y => f c y) b)
  | _, _ => None
  end.

Definition assign_cols (cs : list col) (k : col) : list col :=
  if memb k cs then cs else cs ++ [k].
Definition assign_row (cs : list col) (k : col) (vals : list cell) (v : cell) : list cell :=
  if memb k cs then map2 (fun c old => if Nat.eqb c k then v else old) cs vals
  else vals ++ [v].

Definition o_assign (k : col) (o v : obj) : option obj :=
  match o, v with
  | OFrame cs rows, OSeries vs =>
      if list_eqb (rids rows) (rids vs)
      then Some (OFrame (assign_cols cs k)
                   (map2 (fun r x => (fst r, assign_row cs k (snd r) (snd x))) rows vs))
      else None
  | _, _ => None
  end.

Fixpoint ren (m : list (col * col)) (c : col) : col :=
  match m with
  | [] => c
  | (a, b) :: m' => if Nat.eqb c a then b else ren m' c
  end.

Definition o_rename (m : list (col * col)) (o : obj) : option obj :=
  match o with
  | OFrame cs rows =>
      if nodupb (map (ren m) cs) then Some (OFrame (map (ren m) cs) rows) else None
  | _ => None
  end.

Definition cell_val (c : cell) : Z := match c with Some z => z | None => 0%Z end.
Definition present (c : cell) : bool := match c with Some _ => true | None => false end.
Definition sum_cells (l : list cell) : cell := Some (sumZ (map cell_val l)).
Definition count_cells (l : list cell) : cell := Some (Z.of_nat (length (filter present l))).

Definition o_reduce (f : list cell -> cell) (o : obj) : option obj :=
  match o with
  | OSeries rows => Some (OScalar (f (map (@snd nat cell) rows)))
  | OFrame cs rows =>
      Some (ORow cs (map (fun c => f (map (fun r : nat * list cell => sel cs (snd r) c) rows)) cs))
  | _ => None
  end.

Definition o_len (o : obj) : option obj :=
  match o with
  | OSeries rows => Some (OScalar (Some (Z.of_nat (length rows))))
  | OFrame _ rows => Some (OScalar (Some (Z.of_nat (length rows))))
  | _ => None
  end.

Definition wf_tableb (tc : list col) (rows : list (nat * list cell)) : bool :=
  nodupb tc && forallb (fun r => Nat.eqb (length (snd r)) (length tc)) rows.

Definition table (rho : env) (id : nat) : option obj :=
  match rho id with
  | Some (tc, rows) => if wf_tableb tc rows then Some (OFrame tc rows) else None
  | None => None
  end.

(* ------------------------------------------------------------------ *)
(** * Denotation: a plain structural (compositional) fixpoint *)

Fixpoint den (rho : env) (e : expr) : option obj :=
  match e with
  | Src id cs => bind (table rho id) (o_proj cs)
  | SrcS id c => bind (table rho id) (o_projs c)
  | Proj e cs => bind (den rho e) (o_proj cs)
  | ProjS e c => bind (den rho e) (o_projs c)
  | Filter e p => bind (den rho e) (fun o => bind (den rho p) (fun op => o_filter o op))
  | BinL o e z => bind (den rho e) (fun x => Some (o_map (fun c => bop_fun o c (Some z)) x))
  | BinR o z e => bind (den rho e) (fun x => Some (o_map (fun c => bop_fun o (Some z) c) x))
  | Bin o a b => bind (den rho a) (fun x => bind (den rho b) (fun y => o_bin (bop_fun o) x y))
  | Un u e => bind (den rho e) (fun x => Some (o_map (uop_fun u) x))
  | Fillna e z => bind (den rho e) (fun x => Some (o_map (fillna_fun z) x))
  | Assign e k v => bind (den rho e) (fun x => bind (den rho v) (fun y => o_assign k x y))
  | Rename e m => bind (den rho e) (o_rename m)
  | RSum e => bind (den rho e) (o_reduce sum_cells)
  | RCount e => bind (den rho e) (o_reduce count_cells)
  | RLen e => bind (den rho e) o_len
  end.

(* ------------------------------------------------------------------ *)
(** * Static schema *)

Inductive kind := KFrame (cs : list col) | KSeries | KScalar | KRow (cs : list col).

Definition kind_of (o : obj) : kind :=
  match o with
  | OFrame cs _ => KFrame cs | OSeries _ => KSeries | OScalar _ => KScalar | ORow cs _ => KRow cs
  end.

Definition k_proj (c : list col) (k : kind) : option kind :=
  match k with
  | KFrame cs => if nodupb c && subsetb c cs then Some (KFrame c) else None
  | _ => None
  end.
Definition k_projs (c : col) (k : kind) : option kind :=
  match k with KFrame cs => if memb c cs then Some KSeries else None | _ => None end.
Definition k_filter (k p : kind) : option kind :=
  match k, p with
  | KFrame cs, KSeries => Some (KFrame cs)
  | KSeries, KSeries => Some KSeries
  | _, _ => None
  end.
Definition k_bin (a b : kind) : option kind :=
  match a, b with
  | KFrame cs1, KFrame cs2 => if list_eqb cs1 cs2 then Some (KFrame cs1) else None
  | KSeries, KSeries => Some KSeries
  | KScalar, KScalar => Some KScalar
  | KFrame _, KScalar | KSeries, KScalar => Some a
  | KScalar, KFrame _ | KScalar, KSeries => Some b
  | _, _ => None
  end.
Definition k_assign (k : col) (a v : kind) : option kind :=
  match a, v with
  | KFrame cs, KSeries => Some (KFrame (assign_cols cs k))
  | _, _ => None
  end.
Definition k_rename (m : list (col * col)) (a : kind) : option kind :=
  match a with
  | KFrame cs => if nodupb (map (ren m) cs) then Some (KFrame (map (ren m) cs)) else None
  | _ => None
  end.
Definition k_reduce (a : kind) : option kind :=
  match a with KSeries => Some KScalar | KFrame cs => Some (KRow cs) | _ => None end.
Definition k_len (a : kind) : option kind :=
  match a with KSeries | KFrame _ => Some KScalar | _ => None end.

Fixpoint schema (e : expr) : option kind :=
  match e with
  | Src _ cs => if nodupb cs then Some (KFrame cs) else None
  | SrcS _ _ => Some KSeries
  | Proj e cs => bind (schema e) (k_proj cs)
  | ProjS e c => bind (schema e) (k_projs c)
  | Filter e p => bind (schema e) (fun a => bind (schema p) (fun b => k_filter a b))
  | BinL _ e _ | BinR _ _ e | Un _ e | Fillna e _ => schema e
  | Bin _ a b => bind (schema a) (fun x => bind (schema b) (fun y => k_bin x y))
  | Assign e k v => bind (schema e) (fun x => bind (schema v) (fun y => k_assign k x y))
  | Rename e m => bind (schema e) (k_rename m)
  | RSum e | RCount e => bind (schema e) k_reduce
  | RLen e => bind (schema e) k_len
  end.

(* ------------------------------------------------------------------ *)
(** * Structural equality and substitution *)

Definition bop_eqb (a b : bop) : bool :=
  match a, b with
  | BAdd, BAdd | BSub, BSub | BMul, BMul | BLt, BLt | BLe, BLe | BGt, BGt
  | BGe, BGe | BEq, BEq | BNe, BNe | BAnd, BAnd | BOr, BOr => true
  | _, _ => false
  end.
Definition uop_eqb (a b : uop) : bool :=
  match a, b with
  | UNeg, UNeg | UAbs, UAbs | UIsNa, UIsNa | UNotNull, UNotNull | UInvert, UInvert => true
  | _, _ => false
  end.
Fixpoint map_eqb (a b : list (col * col)) : bool :=
  match a, b with
  | [], [] => true
  | (x1, y1) :: a', (x2, y2) :: b' => Nat.eqb x1 x2 && Nat.eqb y1 y2 && map_eqb a' b'
  | _, _ => false
  end.

Fixpoint expr_eqb (a b : expr) : bool :=
  match a, b with
  | Src i cs, Src j ds => Nat.eqb i j && list_eqb cs ds
  | SrcS i c, SrcS j d => Nat.eqb i j && Nat.eqb c d
  | Proj e cs, Proj e' ds => expr_eqb e e' && list_eqb cs ds
  | ProjS e c, ProjS e' d => expr_eqb e e' && Nat.eqb c d
  | Filter e p, Filter e' p' => expr_eqb e e' && expr_eqb p p'
  | BinL o e z, BinL o' e' z' => bop_eqb o o' && expr_eqb e e' && Z.eqb z z'
  | BinR o z e, BinR o' z' e' => bop_eqb o o' && Z.eqb z z' && expr_eqb e e'
  | Bin o x y, Bin o' x' y' => bop_eqb o o' && expr_eqb x x' && expr_eqb y y'
  | Un u e, Un u' e' => uop_eqb u u' && expr_eqb e e'
  | Fillna e z, Fillna e' z' => expr_eqb e e' && Z.eqb z z'
  | Assign e k v, Assign e' k' v' => expr_eqb e e' && Nat.eqb k k' && expr_eqb v v'
  | Rename e m, Rename e' m' => expr_eqb e e' && map_eqb m m'
  | RSum e, RSum e' => expr_eqb e e'
  | RCount e, RCount e' => expr_eqb e e'
  | RLen e, RLen e' => expr_eqb e e'
  | _, _ => false
  end.

(* Python [Expr.substitute]: replace every sub-term structurally equal to [old] by [new]
   (test the node first, then recurse into the operands; never recurse into [new]). *)
Fixpoint subst (old new e : expr) : expr :=
  if expr_eqb old e then new else
  match e with
  | Src _ _ | SrcS _ _ => e
  | Proj e1 cs => Proj (subst old new e1) cs
  | ProjS e1 c => ProjS (subst old new e1) c
  | Filter e1 p => Filter (subst old new e1) (subst old new p)
  | BinL o e1 z => BinL o (subst old new e1) z
  | BinR o z e1 => BinR o z (subst old new e1)
  | Bin o a b => Bin o (subst old new a) (subst old new b)
  | Un u e1 => Un u (subst old new e1)
  | Fillna e1 z => Fillna (subst old new e1) z
  | Assign e1 k v => Assign (subst old new e1) k (subst old new v)
  | Rename e1 m => Rename (subst old new e1) m
  | RSum e1 => RSum (subst old new e1)
  | RCount e1 => RCount (subst old new e1)
  | RLen e1 => RLen (subst old new e1)
  end.

(* ------------------------------------------------------------------ *)
(** * Views used by the checker *)

(* the outer projection of a step *)
Inductive pctx := PProj (c : list col) | PProjS (c : col).
Definition pbuild (P : pctx) (e : expr) : expr :=
  match P with PProj c => Proj e c | PProjS c => ProjS e c end.
Definition pview (e : expr) : option (pctx * expr) :=
  match e with
  | Proj e' c => Some (PProj c, e')
  | ProjS e' c => Some (PProjS c, e')
  | _ => None
  end.
Definition pcols (P : pctx) : list col :=
  match P with PProj c => c | PProjS c => [c] end.

(* the frame operator a projection is pushed through *)
Inductive opk := OKBinL (o : bop) (z : Z) | OKBinR (o : bop) (z : Z) | OKUn (u : uop) | OKFill (z : Z).
Inductive fctx :=
| FOp (k : opk) | FFilter (p : expr) | FAssign (k : col) (v : expr) | FRename (m : list (col * col)).
Definition fbuild (F : fctx) (x : expr) : expr :=
  match F with
  | FOp (OKBinL o z) => BinL o x z
  | FOp (OKBinR o z) => BinR o z x
  | FOp (OKUn u) => Un u x
  | FOp (OKFill z) => Fillna x z
  | FFilter p => Filter x p
  | FAssign k v => Assign x k v
  | FRename m => Rename x m
  end.
Definition fview (e : expr) : option (fctx * expr) :=
  match e with
  | BinL o x z => Some (FOp (OKBinL o z), x)
  | BinR o z x => Some (FOp (OKBinR o z), x)
  | Un u x => Some (FOp (OKUn u), x)
  | Fillna x z => Some (FOp (OKFill z), x)
  | Filter x p => Some (FFilter p, x)
  | Assign x k v => Some (FAssign k v, x)
  | Rename x m => Some (FRename m, x)
  | _ => None
  end.

Definition strip_p (e : expr) : expr :=
  match e with Proj e' _ => e' | ProjS e' _ => e' | _ => e end.
(* the column list U of the pushed-down projection, read off the result (untrusted hint) *)
Definition inner_U (e : expr) : option (list col) :=
  match fview e with
  | Some (_, Proj _ U) => Some U
  | _ => None
  end.

Definition remove_col (k : col) (c : list col) : list col :=
  filter (fun a => negb (Nat.eqb a k)) c.

(* which columns of x (static columns xs) must survive in U so that columns c are still
   computable above the operator F *)
Definition need (F : fctx) (xs c U : list col) : bool :=
  match F with
  | FOp _ | FFilter _ => subsetb c U
  | FAssign k _ => subsetb (remove_col k c) U
  | FRename m => forallb (fun u => negb (memb (ren m u) c) || memb u U) xs
  end.
Definition bare_allowed (F : fctx) : bool :=
  match F with FOp _ | FFilter _ => true | _ => false end.
Definition fctx_rule (F : fctx) : nat :=
  match F with FOp _ => 4 | FFilter _ => 5 | FAssign _ _ => 7 | FRename _ => 8 end.

(* ------------------------------------------------------------------ *)
(** * One boolean matcher per schema *)

(* S1  P[Proj x a] -> P[x] *)
Definition s1_ok (parent result : expr) : bool :=
  match pview parent with
  | Some (P, Proj x _) => expr_eqb result (pbuild P x)
  | _ => false
  end.

(* S2  Proj x cs -> x when cs = cols x *)
Definition s2_ok (parent result : expr) : bool :=
  match parent with
  | Proj x cs =>
      match schema x with
      | Some (KFrame xs) => list_eqb cs xs && expr_eqb result x
      | _ => false
      end
  | _ => false
  end.

(* S4 / S5 / S7b / S8  P[F x] -> P[F (Proj x U)]   (and F (Proj x U) when U = c, for S4/S5;
   and ProjS (F x) c -> F (ProjS x c) for S4/S5).
   Returns the schema number, 0 when not matched. *)
Definition push_rule (parent result : expr) : nat :=
  match pview parent with
  | Some (P, inner) =>
      match fview inner with
      | Some (F, x) =>
          match schema x with
          | Some (KFrame xs) =>
              let chk U := nodupb U && subsetb U xs && need F xs (pcols P) U in
              if (match inner_U (strip_p result) with
                  | Some U => chk U && expr_eqb result (pbuild P (fbuild F (Proj x U)))
                  | None => false
                  end)
                 ||
                 (match P, inner_U result with
                  | PProj c, Some U =>
                      bare_allowed F && chk U && list_eqb U c
                      && expr_eqb result (fbuild F (Proj x U))
                  | _, _ => false
                  end)
                 ||
                 (* single column as a series:  (F x)[c] -> F (x[c])  (what plain_column_projection
                    does when the column union is one scalar label) *)
                 (match P with
                  | PProjS c => bare_allowed F && expr_eqb result (fbuild F (ProjS x c))
                  | PProj _ => false
                  end)
              then fctx_rule F else 0
          | _ => 0
          end
      | None => 0
      end
  | None => 0
  end.

(* S6  P[Bin o a b] -> P[Bin o a' b'],  a' in {a, Proj a U}, b' in {b, Proj b U}, at least one
   changed, both operands static frames ending up with the same column list *)
Definition side_U (orig new : expr) : option (option (list col)) :=
  (* Some None: unchanged; Some (Some U): new = Proj orig U; None: neither *)
  if expr_eqb new orig then Some None else
  match new with
  | Proj o' U => if expr_eqb o' orig then Some (Some U) else None
  | _ => None
  end.
Definition side_cols (xs : list col) (s : option (list col)) : list col :=
  match s with Some U => U | None => xs end.
Definition side_chk (xs c : list col) (s : option (list col)) : bool :=
  match s with
  | Some U => nodupb U && subsetb U xs && subsetb c U
  | None => true
  end.
Definition pctx_eqb (P P' : pctx) : bool :=
  match P, P' with
  | PProj c, PProj c' => list_eqb c c'
  | PProjS c, PProjS c' => Nat.eqb c c'
  | _, _ => false
  end.
Definition s6_ok (parent result : expr) : bool :=
  match pview parent, pview result with
  | Some (P, Bin o a b), Some (P', Bin o' a' b') =>
      pctx_eqb P P' && bop_eqb o o' &&
      match schema a, schema b, side_U a a', side_U b b' with
      | Some (KFrame ca), Some (KFrame cb), Some sa, Some sb =>
          (match sa, sb with None, None => false | _, _ => true end)
          && side_chk ca (pcols P) sa && side_chk cb (pcols P) sb
          && list_eqb (side_cols ca sa) (side_cols cb sb)
      | _, _, _, _ => false
      end
  | _, _ => false
  end.

(* S7a  P[Assign x k v] -> P[x] when k is not selected *)
Definition s7a_ok (parent result : expr) : bool :=
  match pview parent with
  | Some (P, Assign x k _) => negb (memb k (pcols P)) && expr_eqb result (pbuild P x)
  | _ => false
  end.

(* S9  absorbing a projection into a source *)
Definition s9_ok (parent result : expr) : bool :=
  match pview parent with
  | Some (P, Src id cs) =>
      (match P with
       | PProj c => expr_eqb result (Src id c)
       | PProjS c => expr_eqb result (SrcS id c)
       end)
      ||
      (match pview result with
       | Some (P', Src id' c') =>
           expr_eqb result (pbuild P (Src id c'))
           && nodupb c' && subsetb c' cs && subsetb (pcols P) c'
       | _ => false
       end)
  | _ => false
  end.

(* S10  filter squashing.  [rowwise t q]: q is built from the leaf t only with row-wise
   operators (so every intermediate collection has exactly the rows of t);
   [reduction_free t q]: no reduction occurs in q outside occurrences of t. *)
Fixpoint rowwise (t q : expr) : bool :=
  if expr_eqb t q then true else
  match q with
  | Proj e _ | ProjS e _ | BinL _ e _ | BinR _ _ e | Un _ e | Fillna e _ | Rename e _ => rowwise t e
  | Bin _ a b => rowwise t a && rowwise t b
  | Assign e _ v => rowwise t e && rowwise t v
  | _ => false
  end.
Fixpoint reduction_free (t q : expr) : bool :=
  if expr_eqb t q then true else
  match q with
  | Src _ _ | SrcS _ _ => true
  | Proj e _ | ProjS e _ | BinL _ e _ | BinR _ _ e | Un _ e | Fillna e _ | Rename e _ =>
      reduction_free t e
  | Filter a b | Bin _ a b | Assign a _ b => reduction_free t a && reduction_free t b
  | RSum _ | RCount _ | RLen _ => false
  end.
Definition s10_ok (parent result : expr) : bool :=
  match parent with
  | Filter (Filter x p) q =>
      reduction_free (Filter x p) q && rowwise (Filter x p) q
      && expr_eqb result (Filter x (Bin BAnd p (subst (Filter x p) x q)))
  | _ => false
  end.

(* S13  length push-down:  RLen (F x) -> RLen x  for a length-preserving node F applied to x
   (Proj, ProjS, BinL, BinR, Un, Fillna, Assign, Rename, and the left operand of Bin when it is a
   static frame/series -- a scalar left operand would be broadcast).  [len_reach t e]: t is reached
   from e by one or more such steps (the multi-level form RLen (F (G x)) -> RLen x is accepted too).
   Filter and reductions are not length preserving and stop the descent. *)
Definition is_coll (k : option kind) : bool :=
  match k with Some (KFrame _) | Some KSeries => true | _ => false end.
Fixpoint len_reach (t e : expr) : bool :=
  match e with
  | Proj x _ | ProjS x _ | BinL _ x _ | BinR _ _ x | Un _ x | Fillna x _ | Rename x _
  | Assign x _ _ => expr_eqb x t || len_reach t x
  | Bin _ x _ => is_coll (schema x) && (expr_eqb x t || len_reach t x)
  | _ => false
  end.
Definition s13_ok (parent result : expr) : bool :=
  match parent, result with
  | RLen e, RLen t => len_reach t e
  | _, _ => false
  end.

(* ------------------------------------------------------------------ *)
(** * The checker *)

Definition rule_name (parent result : expr) : nat :=
  if s1_ok parent result then 1
  else if s2_ok parent result then 2
  else match push_rule parent result with
       | S n => S n
       | 0 =>
           if s6_ok parent result then 6
           else if s7a_ok parent result then 7
           else if s9_ok parent result then 9
           else if s10_ok parent result then 10
           else if s13_ok parent result then 13
           else 0
       end.

Definition rule_ok (parent result : expr) : bool := negb (Nat.eqb (rule_name parent result) 0).
