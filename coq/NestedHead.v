(* NestedHead.v -- head of a head / tail of a tail (Head._simplify_down / Tail._simplify_down merge the two nodes; the
   helper _nested_selection is translated from the source into GeneratedSource.v).  Stdlib only, no axioms. *)
From Coq Require Import ZArith List Lia.
Import ListNotations.

(* head(n, npartitions=k): the first n rows of the first k partitions *)
Definition head_rows {A : Type} (parts : list (list A)) (k n : nat) : list A := firstn n (concat (firstn k parts)).
(* head(-m): everything but the last m rows; tail(n): the last n rows; tail(-m): everything but the first m rows *)
Definition head_neg {A : Type} (l : list A) (m : nat) : list A := firstn (length l - m) l.
Definition tail_rows {A : Type} (l : list A) (n : nat) : list A := skipn (length l - n) l.
Definition tail_neg {A : Type} (l : list A) (m : nat) : list A := skipn m l.

Lemma skipn_skipn' : forall (A : Type) (x y : nat) (l : list A), skipn x (skipn y l) = skipn (x + y) l.
Proof.
  intros A x y. revert x. induction y as [|y IH]; intros x l.
  - rewrite Nat.add_0_r. reflexivity.
  - destruct l as [|a l]; [rewrite !skipn_nil; reflexivity|]. rewrite Nat.add_succ_r. simpl. apply IH.
Qed.

(* the outer head works on the ONE partition the inner head produced: its own npartitions is irrelevant *)
Theorem nested_head_merge : forall (A : Type) (parts : list (list A)) k n1 n2,
  firstn n2 (head_rows parts k n1) = head_rows parts k (Nat.min n2 n1).
Proof. intros. unfold head_rows. apply firstn_firstn. Qed.

(* merging the partition counts with min as well (seed C11_b) is wrong *)
Theorem nested_head_min_npartitions_refuted : exists (parts : list (list nat)) k1 k2 n1 n2,
  firstn n2 (head_rows parts k1 n1) <> head_rows parts (Nat.min k2 k1) (Nat.min n2 n1).
Proof. exists [[1;2];[3;4];[5;6]], 3, 1, 6, 5. vm_compute. discriminate. Qed.

Theorem nested_head_neg : forall (A : Type) (l : list A) m1 m2,
  head_neg (head_neg l m1) m2 = head_neg l (m2 + m1).
Proof.
  intros. unfold head_neg. rewrite firstn_length. rewrite firstn_firstn. f_equal. lia.
Qed.

Theorem nested_tail_merge : forall (A : Type) (l : list A) n1 n2,
  tail_rows (tail_rows l n1) n2 = tail_rows l (Nat.min n2 n1).
Proof.
  intros. unfold tail_rows. rewrite skipn_length. rewrite skipn_skipn'. f_equal. lia.
Qed.

Theorem nested_tail_neg : forall (A : Type) (l : list A) m1 m2,
  tail_neg (tail_neg l m1) m2 = tail_neg l (m2 + m1).
Proof. intros. unfold tail_neg. apply skipn_skipn'. Qed.

(* a negative selection after a non-negative one depends on the length: no single n works (the pair is left nested) *)
Theorem nested_head_mixed_refuted : forall n : nat, exists l1 l2 : list nat,
  (head_neg (firstn 5 l1) 2 <> firstn n l1) \/ (head_neg (firstn 5 l2) 2 <> firstn n l2).
Proof.
  intros n. exists [1;2;3;4;5;6;7], [1;2;3]. destruct n as [|[|[|[|n]]]]; vm_compute; try (left; discriminate); right; discriminate.
Qed.
