(* PropC06.v -- property C06: reported partition structure (npartitions, divisions, lengths) is truthful.
   `truthful divs parts` (Divisions.v) is the property's own statement: npartitions+1 sorted entries and every
   computed partition i holds only index values in [divs_i, divs_{i+1}) (last partition: closed).
   Each theorem says: if the input's report is truthful then the report derived by the operator's formula is truthful
   for the partitions the operator computes -- for all divisions, partitions, selections, steps and boundaries.
   The formulas are tied to the real _divisions() methods by the T-LAYER "divisions" correspondence of the C06 check.
   The *_refuted theorems record what the unfixed code did (defects D8, D10, D20, D35, D36 and seed C06_a). *)
From DX Require Import Base Plan PlanProofs Repart RepartCount Divisions DivisionsProofs DivisionsExtra GeneratedClassTable ClassTableChecks ClassTableDivisions ClassTableLengthFlags.
From DX Require Import MinMax MinMaxProofs PySeq GeneratedSource SourceChecks Loc LocProofs LocList LocListProofs SetIndex SetIndexProofs.
Local Open Scope nat_scope.

(* the executable test used by the harness on computed partitions means exactly the property *)
Theorem C06_truthfulb_spec : forall divs parts, truthfulb divs parts = true <-> truthful divs parts.
Proof. exact truthfulb_spec. Qed.
Print Assumptions C06_truthfulb_spec.

(* partitions[...] / partition-filtered sources *)
Theorem C06_partitions_truthful : forall divs parts sel d',
  truthful divs parts -> (forall p, In p sel -> p < length parts) -> sel <> [] ->
  partitions_divisions divs sel = Some d' -> truthful d' (select_parts parts sel).
Proof. exact partitions_truthful. Qed.
Print Assumptions C06_partitions_truthful.

Theorem C06_partitions_known_iff_increasing : forall divs sel,
  (exists d', partitions_divisions divs sel = Some d') <-> sinc sel.
Proof. exact partitions_divisions_known_iff. Qed.
Print Assumptions C06_partitions_known_iff_increasing.

Theorem C06_partitions_unsorted_refuted : exists divs parts sel,
  truthful divs parts /\ (forall p, In p sel -> p < length parts) /\ sel <> [] /\
  ~ truthful (partitions_divisions_old divs sel) (select_parts parts sel).
Proof. exact partitions_unsorted_refuted. Qed.
Print Assumptions C06_partitions_unsorted_refuted.

(* partitionwise operators report their input's divisions: right iff it is the input they really read *)
Theorem C06_partitionwise_keeps_divisions : forall divs parts parts',
  truthful divs parts -> length parts' = length parts ->
  (forall i x, i < length parts -> In x (nth i parts' []) -> In x (nth i parts [])) ->
  truthful divs parts'.
Proof. exact truthful_subset. Qed.
Print Assumptions C06_partitionwise_keeps_divisions.

Theorem C06_derived_of_selection_truthful : forall divs parts sel d' parts',
  truthful divs parts -> (forall p, In p sel -> p < length parts) -> sel <> [] ->
  partitions_divisions divs sel = Some d' -> length parts' = length sel ->
  (forall i x, i < length sel -> In x (nth i parts' []) -> In x (nth i (select_parts parts sel) [])) ->
  truthful d' parts'.
Proof. exact derived_of_selection_truthful. Qed.
Print Assumptions C06_derived_of_selection_truthful.

Theorem C06_raw_divisions_of_selection_refuted : forall divs parts sel,
  truthful divs parts -> length sel <> length parts -> ~ truthful divs (select_parts parts sel).
Proof. exact raw_divisions_of_selection_refuted. Qed.
Print Assumptions C06_raw_divisions_of_selection_refuted.

Theorem C06_longer_divisions_refuted : forall divs divs' parts,
  truthful divs parts -> length divs' <> length divs -> ~ truthful divs' parts.
Proof. exact longer_divisions_refuted. Qed.
Print Assumptions C06_longer_divisions_refuted.

(* T-GEN: no method in the current source reads an operand's raw _divisions() outside the reviewed sites *)
Theorem C06_no_raw_operand_divisions : raw_divisions_b = true.
Proof. exact raw_divisions_reviewed_ok. Qed.
Print Assumptions C06_no_raw_operand_divisions.

(* fused multi-file reads *)
Theorem C06_fused_truthful : forall divs parts parts_sel step,
  truthful divs parts -> strictly_increasingb parts_sel = true ->
  (forall p, In p parts_sel -> p < length parts) -> 1 <= step -> parts_sel <> [] ->
  truthful (fused_divisions divs (fusion_buckets parts_sel step)) (fused_parts parts (fusion_buckets parts_sel step)).
Proof. exact fused_truthful. Qed.
Print Assumptions C06_fused_truthful.

Theorem C06_fused_old_refuted : exists divs parts parts_sel step,
  truthful divs parts /\ strictly_increasingb parts_sel = true /\
  (forall p, In p parts_sel -> p < length parts) /\ 1 <= step /\ parts_sel <> [] /\
  ~ truthful (fused_divisions_old divs (fusion_buckets parts_sel step)) (fused_parts parts (fusion_buckets parts_sel step)).
Proof. exact fused_divisions_old_refuted. Qed.
Print Assumptions C06_fused_old_refuted.

(* repartition to fewer partitions *)
Theorem C06_fewer_truthful : forall divs parts bs,
  truthful divs parts -> DivisionsProofs.chain bs (length parts) -> interior_below bs (length parts) ->
  truthful (fewer_divisions divs bs) (fewer_parts parts bs).
Proof. exact fewer_truthful. Qed.
Print Assumptions C06_fewer_truthful.

Theorem C06_fewer_trailing_empty_refuted : exists divs parts bs,
  truthful divs parts /\ DivisionsProofs.chain bs (length parts) /\ ~ truthful (fewer_divisions divs bs) (fewer_parts parts bs).
Proof. exact fewer_trailing_empty_refuted. Qed.
Print Assumptions C06_fewer_trailing_empty_refuted.

(* head / tail *)
Theorem C06_head_truthful : forall divs parts k nrows,
  truthful divs parts -> k <= length parts -> truthful (head_divisions divs k) (head_parts parts k nrows).
Proof. exact head_truthful. Qed.
Print Assumptions C06_head_truthful.

Theorem C06_blockwise_head_truthful : forall divs parts k nrows,
  truthful divs parts -> k <= length parts -> truthful (bhead_divisions divs k) (bhead_parts parts k nrows).
Proof. exact bhead_truthful. Qed.
Print Assumptions C06_blockwise_head_truthful.

Theorem C06_tail_truthful : forall divs parts nrows,
  truthful divs parts -> parts <> [] -> truthful (tail_divisions divs) (tail_parts parts nrows).
Proof. exact tail_truthful. Qed.
Print Assumptions C06_tail_truthful.

(* concat along the rows *)
Theorem C06_concat_truthful : forall ds pss R,
  Forall2 truthful ds pss -> concat_divisions ds = Some R -> truthful R (concat_parts pss).
Proof. exact concat_truthful_n. Qed.
Print Assumptions C06_concat_truthful.

Theorem C06_concat_touching_refuted : exists A pa B pb R,
  truthful A pa /\ truthful B pb /\ last A 0%Z = hd 0%Z B /\
  concat_divisions2_touching A B = Some R /\ ~ truthful R (pa ++ pb).
Proof. exact concat_touching_refuted. Qed.
Print Assumptions C06_concat_touching_refuted.

(* len() pushed through length-preserving operators: every accepted step keeps the value *)
Theorem C06_len_pushdown_sound : forall parent result, rule_ok parent result = true ->
  forall rho o, den rho parent = Some o -> den rho result = Some o.
Proof. exact rule_ok_sound. Qed.
Print Assumptions C06_len_pushdown_sound.

(* count-based repartitioning reports exactly the number of partitions it computes *)
Theorem C06_repartition_counts : forall (row : Type) (P : list (list row)) (bs : list nat),
  RepartCount.chain 0 bs (length P) -> length (exec_fewer (0 :: bs) P) = length bs.
Proof. intros. apply fewer_count. Qed.
Print Assumptions C06_repartition_counts.

(* T-GEN: every class of the current source that lets len() be answered through it (_is_length_preserving) is
   element-wise or on the reviewed list *)
Theorem C06_length_flags_reviewed : length_flags_b = true.
Proof. exact length_flags_reviewed. Qed.
Print Assumptions C06_length_flags_reviewed.

(* ---- T-SRC: the same theorems about the method bodies translated from the current source (GeneratedSource.v is rewritten
   from /repo on every run by harness/gen_source.py; SourceChecks.v proves each translated body equal to the model) ---- *)
Theorem C06_src_partitions_truthful : forall divs parts (sel : list nat) d',
  truthful divs parts -> (forall p, In p sel -> p < length parts) -> sel <> [] ->
  src_Partitions_divisions divs (zs sel) = Known d' -> truthful d' (select_parts parts sel).
Proof. exact src_partitions_truthful. Qed.
Print Assumptions C06_src_partitions_truthful.

Theorem C06_src_partitions_filtered_truthful : forall full parts (sel : list nat) d',
  truthful full parts -> (forall p, In p sel -> p < length parts) -> sel <> [] ->
  src_PartitionsFiltered_divisions full true (zs sel) = Known d' -> truthful d' (select_parts parts sel).
Proof. exact src_partitions_filtered_truthful. Qed.
Print Assumptions C06_src_partitions_filtered_truthful.

Theorem C06_src_partitions_unknown_count : forall divs (sel : list nat) n,
  src_Partitions_divisions divs (zs sel) = Unknown n -> n = (Z.of_nat (length sel) + 1)%Z.
Proof. exact src_partitions_unknown_count. Qed.
Print Assumptions C06_src_partitions_unknown_count.

Theorem C06_src_fused_truthful : forall divs seldivs parts parts_sel step d,
  truthful divs parts -> strictly_increasingb parts_sel = true ->
  (forall p, In p parts_sel -> p < length parts) -> 1 <= step -> parts_sel <> [] ->
  src_FusedIO_divisions divs seldivs (map zs (fusion_buckets parts_sel step)) = Known d ->
  truthful d (fused_parts parts (fusion_buckets parts_sel step)).
Proof. exact src_fused_truthful. Qed.
Print Assumptions C06_src_fused_truthful.

Theorem C06_src_fewer_truthful : forall divs parts bs,
  truthful divs parts -> DivisionsProofs.chain bs (length parts) -> interior_below bs (length parts) ->
  truthful (src_RepartitionToFewer_divisions divs (zs bs)) (fewer_parts parts bs).
Proof. exact src_fewer_truthful. Qed.
Print Assumptions C06_src_fewer_truthful.

Theorem C06_src_head_truthful : forall divs parts k nrows,
  truthful divs parts -> k <= length parts ->
  truthful (src_Head_divisions divs (Z.of_nat k)) (head_parts parts k nrows).
Proof. exact src_head_truthful. Qed.
Print Assumptions C06_src_head_truthful.

Theorem C06_src_blockwise_head_truthful : forall divs parts (sel : list Z) nrows,
  truthful divs parts -> length sel <= length parts ->
  truthful (src_BlockwiseHead_divisions divs sel) (bhead_parts parts (length sel) nrows).
Proof. exact src_blockwise_head_truthful. Qed.
Print Assumptions C06_src_blockwise_head_truthful.

Theorem C06_src_tail_truthful : forall divs parts nrows,
  truthful divs parts -> parts <> [] -> truthful (src_Tail_divisions divs) (tail_parts parts nrows).
Proof. exact src_tail_truthful. Qed.
Print Assumptions C06_src_tail_truthful.

Theorem C06_src_concat_truthful : forall ds pss,
  Forall2 truthful ds pss -> ds <> [] -> src_Concat_monotonic_divisions ds true = true ->
  truthful (src_Concat_divisions_monotonic ds) (concat_parts pss).
Proof. exact src_concat_truthful. Qed.
Print Assumptions C06_src_concat_truthful.

(* ---- divisions derived from (min, max) statistics: presorted set_index / sort_values, parquet statistics ---- *)
Theorem C06_presorted_truthful : forall l parts d,
  stats_ok l parts -> wf_stats l -> presorted_divisions l = Some d -> truthful d parts.
Proof. exact presorted_truthful. Qed.
Print Assumptions C06_presorted_truthful.

Theorem C06_presorted_touching_refuted : exists l parts d,
  stats_ok l parts /\ wf_stats l /\ presorted_divisions_touching l = Some d /\ ~ truthful d parts.
Proof. exact presorted_touching_refuted. Qed.
Print Assumptions C06_presorted_touching_refuted.

Theorem C06_parquet_statistics_truthful : forall l parts d p,
  stats_ok l parts -> wf_stats l -> stats_divisions l = Some (d, p) ->
  truthful d (reindex parts p []) /\ Permutation.Permutation p (seq 0 (length parts)).
Proof. exact stats_truthful. Qed.
Print Assumptions C06_parquet_statistics_truthful.

Theorem C06_parquet_statistics_old_refuted : exists l parts,
  stats_ok l parts /\ wf_stats l /\
  ~ truthful (fst (stats_divisions_old l)) (reindex parts (snd (stats_divisions_old l)) []).
Proof. exact stats_old_refuted. Qed.
Print Assumptions C06_parquet_statistics_old_refuted.

(* ---- label slices df.loc[lo:hi] and index arithmetic ---- *)
Theorem C06_loc_slice_truthful : forall divs parts lo hi,
  truthful divs parts -> parts <> [] -> slice_ok lo hi ->
  truthful (loc_divisions divs lo hi) (loc_parts divs parts lo hi).
Proof. exact loc_truthful. Qed.
Print Assumptions C06_loc_slice_truthful.

Theorem C06_index_map_increasing_truthful : forall f divs parts,
  strictly_increasing_fn f -> truthful divs parts -> truthful (map f divs) (map_parts f parts).
Proof. exact map_increasing_truthful. Qed.
Print Assumptions C06_index_map_increasing_truthful.

Theorem C06_index_map_nondecreasing_refuted : exists f divs parts,
  nondecreasing_fn f /\ truthful divs parts /\ ~ truthful (map f divs) (map_parts f parts).
Proof. exact map_nondecreasing_refuted. Qed.
Print Assumptions C06_index_map_nondecreasing_refuted.

Theorem C06_index_map_nonmonotone_refuted : exists (f : Z -> Z) divs parts,
  truthful divs parts /\ ~ truthful (map f divs) (map_parts f parts).
Proof. exact map_nonmonotone_refuted. Qed.
Print Assumptions C06_index_map_nonmonotone_refuted.

(* ---- label lists df.loc[[l1, l2, ...]] ---- *)
Theorem C06_loc_list_truthful : forall divs parts labels,
  truthful divs parts -> parts <> [] -> labels <> [] -> labels_in_range divs labels ->
  truthful (ll_divisions divs labels) (ll_parts divs parts labels).
Proof. exact ll_truthful. Qed.
Print Assumptions C06_loc_list_truthful.

Theorem C06_loc_list_unsorted_refuted : exists divs parts labels,
  truthful divs parts /\ labels_in_range divs labels /\
  ~ truthful (ll_divisions_unsorted divs labels) (ll_parts divs parts labels).
Proof. exact ll_unsorted_refuted. Qed.
Print Assumptions C06_loc_list_unsorted_refuted.

(* alignment (calc_divisions_for_align): the divisions reported for an index-aligned operation between differently partitioned
   operands are truthful for every operand repartitioned to them (ANY partitions) and for the partition-wise result of every
   index-local operation; the (min, max) reported when every operand has one partition is truthful; without unique() the
   vector would be invalid and declare partitions for empty ranges.  Tie: T-LAYER align_layer. *)
From DX Require Import Align AlignProofs.
Theorem C06_align_truthful : forall (row : Type) (idx : row -> Z) ds (P : list (list row)),
  ds <> [] -> Forall (fun d => (2 <= length d)%nat) ds -> Forall Repart.sortedZ ds ->
  Divisions.truthful (align_divisions ds) (map (map idx) (spec_plan idx (align_divisions ds) P)).
Proof. exact align_truthful. Qed.
Print Assumptions C06_align_truthful.

Theorem C06_aligned_result_truthful : forall (row : Type) (idx : row -> Z) (out : Type)
    (f : list row -> list row -> list out) (key : out -> Z),
  (forall (p : Z -> bool) A B,
      filter (fun o => p (key o)) (f A B) = f (filter (fun r => p (idx r)) A) (filter (fun r => p (idx r)) B)) ->
  forall ds a1 a2 (P1 P2 : list (list row)),
  ds <> [] -> Forall (fun d => (2 <= length d)%nat) ds -> Forall Repart.sortedZ ds ->
  In a1 ds -> In a2 ds -> respects idx a1 P1 -> respects idx a2 P2 ->
  Divisions.truthful (align_divisions ds)
    (map (map key) (blockwise2 f (spec_plan idx (align_divisions ds) P1) (spec_plan idx (align_divisions ds) P2))).
Proof. exact aligned_result_truthful. Qed.
Print Assumptions C06_aligned_result_truthful.

Theorem C06_align_single_truthful : forall (ds : list (list Z)) (Q : list Z),
  Forall (fun d => exists lo hi, d = [lo; hi] /\ (lo <= hi)%Z) ds ->
  Forall (fun x => exists d, In d ds /\ (nthZ d 0 <= x <= lastZ d)%Z) Q ->
  Divisions.truthful (align_single ds) [Q].
Proof. exact align_single_truthful. Qed.
Print Assumptions C06_align_single_truthful.

Theorem C06_align_nodedup_refuted :
  exists ds : list (list Z),
    ds <> [] /\ Forall (fun d => (2 <= length d)%nat) ds /\ Forall Repart.sortedZ ds /\
    Forall (fun d => strict_incr d = true) ds /\
    valid_divs (align_divisions_nodedup ds) = false /\
    (exists j, (S (S j) < length (align_divisions_nodedup ds))%nat /\
               nthZ (align_divisions_nodedup ds) j = nthZ (align_divisions_nodedup ds) (S j) /\
               forall v, in_target (align_divisions_nodedup ds) j v = false) /\
    valid_divs (align_divisions ds) = true.
Proof. exact align_nodedup_refuted. Qed.
Print Assumptions C06_align_nodedup_refuted.

(* set_index / sort_values on divisions: rows are routed by `set_partitions_pre` (SetIndex.v, tied by T-LAYER
   `setindex_layer`); the reported divisions are truthful for the shuffled partitions whenever the keys lie inside the
   closed range of the divisions (divisions computed from the data have min / max as their end points), every row is in
   exactly one output partition, and the range hypothesis cannot be dropped. *)
Theorem C06_set_index_truthful : forall divs rows, Divisions.sortedZ divs -> (2 <= length divs)%nat ->
  keys_within divs rows -> Divisions.truthful divs (sp_parts divs rows).
Proof. exact set_index_truthful. Qed.
Print Assumptions C06_set_index_truthful.

Theorem C06_set_index_partition_exact : forall divs rows i v, (i < length divs - 1)%nat ->
  (In v (nth i (sp_parts divs rows) []) <-> In v rows /\ sp_part divs v = i).
Proof. exact set_index_partition_exact. Qed.
Print Assumptions C06_set_index_partition_exact.

Theorem C06_set_index_below_refuted : exists divs rows, Divisions.sortedZ divs /\ (2 <= length divs)%nat /\
  ~ Divisions.truthful divs (sp_parts divs rows).
Proof. exact set_index_below_refuted. Qed.
Print Assumptions C06_set_index_below_refuted.

Theorem C06_set_index_row_count : forall divs rows, (2 <= length divs)%nat ->
  length (concat (sp_parts divs rows)) = length rows.
Proof. exact set_index_row_count. Qed.
Print Assumptions C06_set_index_row_count.
