(* PropC06.v -- property C06: reported partition structure is truthful (placeholder statements are replaced
   when DivisionsProofs.v lands).  Already proved and relevant here: lengths answered through
   length-preserving operators (schema S13 of the verified rule checker), and the partition counts of the
   repartitioning / shuffle layers. *)
From DX Require Import Base Plan PlanProofs Repart RepartCount.

(* len() pushed through length-preserving operators: every accepted step keeps the value *)
Theorem C06_len_pushdown_sound : forall parent result, rule_ok parent result = true ->
  forall rho o, den rho parent = Some o -> den rho result = Some o.
Proof. exact rule_ok_sound. Qed.
Print Assumptions C06_len_pushdown_sound.

(* count-based repartitioning reports exactly the number of partitions it computes *)
Theorem C06_repartition_counts : forall (row : Type) (P : list (list row)) (bs : list nat),
  chain 0 bs (length P) -> length (exec_fewer (0 :: bs) P) = length bs.
Proof. intros. apply fewer_count. Qed.
Print Assumptions C06_repartition_counts.
