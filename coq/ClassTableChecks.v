(* ClassTableChecks.v -- reflective obligations over the class table that harness/gen_tables.py regenerates
   from the source tree on every run (T-GEN).  This file: helpers and the name-head obligation of C08; the obligations of other properties are in
   ClassTableFilterFlags.v (C03), ClassTableLengthFlags.v (C06), ClassTableDivisions.v (C06), ClassTableState.v (C15/C16), so that
   a broken obligation breaks only the check of its own property.  A change to dask-expr that adds an ambiguous name head
   breaks the lemma below (the proof is a computation over the
   generated table, so it is re-checked against what the code says now). *)
From Coq Require Import String List Bool.
From DX Require Import GeneratedClassTable.
Import ListNotations.
Open Scope string_scope.

Definition mems (s : string) (l : list string) : bool := existsb (String.eqb s) l.
Definition memp (a b : string) (l : list (string * string)) : bool :=
  existsb (fun p => (String.eqb a (fst p) && String.eqb b (snd p)) || (String.eqb b (fst p) && String.eqb a (snd p))) l.
Definition prefix_is (p s : string) : bool := String.prefix p s.

(* ---- C08: name heads ------------------------------------------------------------------------ *)
(* name = head ++ "-" ++ token(operands).  Two classes with the same static head and the same number of
   operands can only be told apart by their operands.  Every such pair is reviewed: the choice between the two
   classes is a function of the operands themselves (e.g. frame vs series input), or the operand kinds are
   disjoint (an expression vs a label).  Classes with a custom or operand-dependent head are handled by their own
   _name implementation (prefix/label + token of all operands). *)
Definition reviewed_pairs : list (string * string) := [
  ("AddPrefix", "AddPrefixSeries");           (* chosen by the input's dimensionality *)
  ("AddSuffix", "AddSuffixSeries");
  ("AlignGetitem", "Filter"); ("AlignGetitem", "Projection"); ("Filter", "Projection");   (* Expr predicate / labels / position of an _Align pair *)
  ("Loc", "LocBase"); ("Loc", "LocElement"); ("Loc", "LocList"); ("Loc", "LocSlice"); ("LocBase", "LocElement"); ("LocBase", "LocList");
  ("LocBase", "LocSlice"); ("LocElement", "LocList"); ("LocElement", "LocSlice"); ("LocList", "LocSlice");   (* chosen by the indexer's type *)
  ("DescribeNonNumericAggregate", "CaseWhen"); ("DescribeNonNumericAggregate", "_DeepCopy"); ("CaseWhen", "_DeepCopy");
  ("TakeLast", "ColumnsSetter"); ("TakeLast", "RenameFrame"); ("TakeLast", "ScalarToSeries"); ("ColumnsSetter", "RenameFrame");
  ("ColumnsSetter", "ScalarToSeries"); ("RenameFrame", "ScalarToSeries");
  ("PropertyMap", "PropertyMapIndex"); ("PropertyMap", "ConcatIndexed"); ("PropertyMap", "ConcatUnindexed"); ("PropertyMap", "DescribeNumericAggregate");
  ("PropertyMap", "MemoryUsagePerPartition"); ("PropertyMap", "RenameSeries"); ("PropertyMap", "SortValuesBlockwise"); ("PropertyMap", "CatBlockwise");
  ("PropertyMapIndex", "ConcatIndexed"); ("PropertyMapIndex", "ConcatUnindexed"); ("PropertyMapIndex", "DescribeNumericAggregate");
  ("PropertyMapIndex", "MemoryUsagePerPartition"); ("PropertyMapIndex", "RenameSeries"); ("PropertyMapIndex", "SortValuesBlockwise"); ("PropertyMapIndex", "CatBlockwise");
  ("ConcatIndexed", "ConcatUnindexed"); ("ConcatIndexed", "DescribeNumericAggregate"); ("ConcatIndexed", "MemoryUsagePerPartition"); ("ConcatIndexed", "RenameSeries");
  ("ConcatIndexed", "SortValuesBlockwise"); ("ConcatIndexed", "CatBlockwise"); ("ConcatUnindexed", "DescribeNumericAggregate"); ("ConcatUnindexed", "MemoryUsagePerPartition");
  ("ConcatUnindexed", "RenameSeries"); ("ConcatUnindexed", "SortValuesBlockwise"); ("ConcatUnindexed", "CatBlockwise"); ("DescribeNumericAggregate", "MemoryUsagePerPartition");
  ("DescribeNumericAggregate", "RenameSeries"); ("DescribeNumericAggregate", "SortValuesBlockwise"); ("DescribeNumericAggregate", "CatBlockwise");
  ("MemoryUsagePerPartition", "RenameSeries"); ("MemoryUsagePerPartition", "SortValuesBlockwise"); ("MemoryUsagePerPartition", "CatBlockwise");
  ("RenameSeries", "SortValuesBlockwise"); ("RenameSeries", "CatBlockwise"); ("SortValuesBlockwise", "CatBlockwise");
  ("FunctionMap", "FunctionMapIndex"); ("FunctionMap", "SetIndexBlockwise"); ("FunctionMap", "SplitMap"); ("FunctionMapIndex", "SetIndexBlockwise");
  ("FunctionMapIndex", "SplitMap"); ("SetIndexBlockwise", "SplitMap");
  ("MethodOperator", "AssignPartitioningIndex");
  ("GetDummies", "_SetIndexPost")
].

Definition static_head (c : class_info) : bool :=
  negb (prefix_is "custom:" (c_head c)) && negb (prefix_is "dynamic:" (c_head c)).

Definition pair_ok (c1 c2 : class_info) : bool :=
  String.eqb (c_name c1) (c_name c2)
  || negb (String.eqb (c_head c1) (c_head c2))
  || negb (static_head c1)
  || negb (Nat.eqb (c_arity c1) (c_arity c2))
  || c_variadic c1 || c_variadic c2
  || memp (c_name c1) (c_name c2) reviewed_pairs.

Definition heads_unambiguous_b : bool :=
  forallb (fun c1 => forallb (fun c2 => pair_ok c1 c2) class_table) class_table.

Lemma heads_unambiguous : heads_unambiguous_b = true.
Proof. vm_compute. reflexivity. Qed.

