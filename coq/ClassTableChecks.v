(* ClassTableChecks.v -- reflective obligations over the class table that harness/gen_tables.py regenerates
   from the source tree on every run (T-GEN).  This file: helpers and the name-head obligation of C08; the obligations of other properties are in
   ClassTableFilterFlags.v (C03), ClassTableLengthFlags.v (C06), ClassTableDivisions.v (C06), ClassTableState.v (C15/C16), so that
   a broken obligation breaks only the check of its own property.  A change to dask-expr that adds an ambiguous name head
   breaks the lemma below (the proof is a computation over the
   generated table, so it is re-checked against what the code says now). *)
From Coq Require Import String List Bool.
From DX Require Import GeneratedClassTable.
Import ListNotations.
Open Scope string_scope.

Definition mems (s : string) (l : list string) : bool := existsb (String.eqb s) l.
Definition memp (a b : string) (l : list (string * string)) : bool :=
  existsb (fun p => (String.eqb a (fst p) && String.eqb b (snd p)) || (String.eqb b (fst p) && String.eqb a (snd p))) l.
Definition prefix_is (p s : string) : bool := String.prefix p s.

(* ---- C08: name heads ------------------------------------------------------------------------ *)
(* name = head ++ "-" ++ token(class?, operands).  Two classes with the same static head and the same number of
   operands can only be told apart by their operands -- unless the class itself is tokenized (c_token_class, read off
   the AST of the _name implementation each class inherits).  Classes with a custom or operand-dependent head are
   handled by their own _name implementation (prefix/label + token of all operands). *)
(* Since fix D100 every Blockwise name tokenizes its class together with the operands, so no pair needs a review any more;
   before, 68 pairs were listed here with a reason each -- and the reason given for (ColumnsSetter, RenameFrame) was wrong:
   `df.columns = mapping` and `df.rename(columns=mapping)` have equal operands (defect D100). *)
Definition reviewed_pairs : list (string * string) := [].

Definition static_head (c : class_info) : bool :=
  negb (prefix_is "custom:" (c_head c)) && negb (prefix_is "dynamic:" (c_head c)).

Definition pair_ok (c1 c2 : class_info) : bool :=
  String.eqb (c_name c1) (c_name c2)
  || negb (String.eqb (c_head c1) (c_head c2))
  || negb (static_head c1)
  || negb (Nat.eqb (c_arity c1) (c_arity c2))
  || c_variadic c1 || c_variadic c2
  || (c_token_class c1 && c_token_class c2)      (* the class itself is part of the tokenized data of both names (fix D100) *)
  || memp (c_name c1) (c_name c2) reviewed_pairs.

Definition heads_unambiguous_b : bool :=
  forallb (fun c1 => forallb (fun c2 => pair_ok c1 c2) class_table) class_table.

Lemma heads_unambiguous : heads_unambiguous_b = true.
Proof. vm_compute. reflexivity. Qed.

