(* PlanProofs.v -- soundness of the translation-validation checker [rule_ok] of Plan.v *)
From DX Require Import Base Plan.

(* ------------------------------------------------------------------ *)
(** * Boolean reflection *)

Lemma memb_In : forall c l, memb c l = true <-> In c l.
Proof.
  induction l as [|x r IH]; simpl.
  - split; [discriminate|tauto].
  - rewrite orb_true_iff, IH, Nat.eqb_eq. split; intros [H|H]; auto.
Qed.

Lemma memb_false_notin : forall c l, memb c l = false <-> ~ In c l.
Proof.
  intros c l. rewrite <- memb_In. destruct (memb c l); split; congruence.
Qed.

Lemma nodupb_NoDup : forall l, nodupb l = true <-> NoDup l.
Proof.
  induction l as [|x r IH]; simpl.
  - split; [constructor|reflexivity].
  - rewrite andb_true_iff, negb_true_iff, IH, memb_false_notin.
    split.
    + intros [H1 H2]. constructor; assumption.
    + intros H. inversion H; subst. split; assumption.
Qed.

Lemma subsetb_incl : forall a b, subsetb a b = true <-> (forall c, In c a -> In c b).
Proof.
  intros a b. unfold subsetb. rewrite forallb_forall.
  split; intros H c Hc.
  - apply memb_In. apply H. exact Hc.
  - apply memb_In. apply H. exact Hc.
Qed.

Lemma subsetb_trans : forall a b c, subsetb a b = true -> subsetb b c = true -> subsetb a c = true.
Proof.
  intros a b c H1 H2. rewrite subsetb_incl in *. auto.
Qed.

Lemma subsetb_refl : forall a, subsetb a a = true.
Proof. intros a. apply subsetb_incl. auto. Qed.

Lemma list_eqb_eq : forall a b, list_eqb a b = true <-> a = b.
Proof.
  induction a as [|x a IH]; destruct b as [|y b]; simpl; try (split; congruence).
  rewrite andb_true_iff, Nat.eqb_eq, IH. split.
  - intros [-> ->]. reflexivity.
  - intros H. inversion H. auto.
Qed.

Lemma list_eqb_refl : forall a, list_eqb a a = true.
Proof. intros a. apply list_eqb_eq. reflexivity. Qed.

Lemma bop_eqb_eq : forall a b, bop_eqb a b = true -> a = b.
Proof. destruct a, b; simpl; intros H; try discriminate; reflexivity. Qed.
Lemma uop_eqb_eq : forall a b, uop_eqb a b = true -> a = b.
Proof. destruct a, b; simpl; intros H; try discriminate; reflexivity. Qed.
Lemma map_eqb_eq : forall a b, map_eqb a b = true -> a = b.
Proof.
  induction a as [|[x1 y1] a IH]; destruct b as [|[x2 y2] b]; simpl; intros H; try discriminate.
  - reflexivity.
  - rewrite !andb_true_iff, !Nat.eqb_eq in H. destruct H as [[-> ->] H].
    rewrite (IH _ H). reflexivity.
Qed.

Ltac split_andb :=
  repeat match goal with
         | H : _ && _ = true |- _ => apply andb_true_iff in H; destruct H
         end.

Lemma expr_eqb_eq : forall a b, expr_eqb a b = true -> a = b.
Proof.
  induction a; destruct b; simpl; intros H; try discriminate; split_andb;
    repeat match goal with
           | H : Nat.eqb _ _ = true |- _ => apply Nat.eqb_eq in H
           | H : Z.eqb _ _ = true |- _ => apply Z.eqb_eq in H
           | H : list_eqb _ _ = true |- _ => apply list_eqb_eq in H
           | H : bop_eqb _ _ = true |- _ => apply bop_eqb_eq in H
           | H : uop_eqb _ _ = true |- _ => apply uop_eqb_eq in H
           | H : map_eqb _ _ = true |- _ => apply map_eqb_eq in H
           | IH : forall b, expr_eqb ?a b = true -> ?a = b, H : expr_eqb ?a _ = true |- _ =>
               apply IH in H
           end; subst; reflexivity.
Qed.

(* ------------------------------------------------------------------ *)
(** * Option helpers *)

Lemma bind_Some : forall A B (x : option A) (f : A -> option B) b,
  bind x f = Some b -> exists a, x = Some a /\ f a = Some b.
Proof. intros A B [a|] f b H; simpl in H; [eauto|discriminate]. Qed.

Lemma bind_assoc : forall A B C (x : option A) (f : A -> option B) (g : B -> option C),
  bind (bind x f) g = bind x (fun a => bind (f a) g).
Proof. intros A B C [a|] f g; reflexivity. Qed.

Ltac inv_bind H :=
  let a := fresh "a" in let Ha := fresh "Ha" in
  apply bind_Some in H; destruct H as (a & Ha & H).

(* ------------------------------------------------------------------ *)
(** * List helpers: sel, map2, fmask *)

Lemma sel_map_self : forall (f : col -> cell) a c, In c a -> sel a (map f a) c = f c.
Proof.
  induction a as [|x a IH]; simpl; intros c Hc; [tauto|].
  destruct (Nat.eqb c x) eqn:E.
  - apply Nat.eqb_eq in E. subst. reflexivity.
  - apply IH. destruct Hc as [Hc|Hc]; [|exact Hc].
    subst. rewrite Nat.eqb_refl in E. discriminate.
Qed.

Lemma sel_id : forall cs vals, NoDup cs -> length vals = length cs -> map (sel cs vals) cs = vals.
Proof.
  induction cs as [|x cs IH]; intros vals Hnd Hlen.
  - destruct vals; [reflexivity|discriminate].
  - destruct vals as [|v vals]; [discriminate|].
    inversion Hnd as [|? ? Hx Hnd']; subst.
    simpl. rewrite Nat.eqb_refl. f_equal.
    transitivity (map (sel cs vals) cs); [|apply IH; [exact Hnd'|simpl in Hlen; lia]].
    apply map_ext_in. intros c Hc.
    destruct (Nat.eqb c x) eqn:E; [|reflexivity].
    apply Nat.eqb_eq in E. subst. contradiction.
Qed.

Lemma sel_map : forall (f : cell -> cell) cs vals c,
  In c cs -> length vals = length cs -> sel cs (map f vals) c = f (sel cs vals c).
Proof.
  induction cs as [|x cs IH]; intros vals c Hc Hlen; [inversion Hc|].
  destruct vals as [|v vals]; [discriminate|].
  simpl. destruct (Nat.eqb c x) eqn:E; [reflexivity|].
  apply IH; [|simpl in Hlen; lia].
  destruct Hc as [Hc|Hc]; [|exact Hc]. subst. rewrite Nat.eqb_refl in E. discriminate.
Qed.

Lemma sel_map2 : forall (f : cell -> cell -> cell) cs v1 v2 c,
  In c cs -> length v1 = length cs -> length v2 = length cs ->
  sel cs (map2 f v1 v2) c = f (sel cs v1 c) (sel cs v2 c).
Proof.
  induction cs as [|x cs IH]; intros v1 v2 c Hc H1 H2; [inversion Hc|].
  destruct v1 as [|a v1]; [discriminate|]. destruct v2 as [|b v2]; [discriminate|].
  simpl. destruct (Nat.eqb c x) eqn:E; [reflexivity|].
  apply IH; [|simpl in *; lia|simpl in *; lia].
  destruct Hc as [Hc|Hc]; [|exact Hc]. subst. rewrite Nat.eqb_refl in E. discriminate.
Qed.

Lemma map2_length : forall A B C (f : A -> B -> C) l1 l2,
  length l1 = length l2 -> length (map2 f l1 l2) = length l1.
Proof.
  induction l1 as [|a l1 IH]; destruct l2 as [|b l2]; simpl; intros H; try discriminate; auto.
Qed.

Lemma fmask_map : forall A B (f : A -> B) m l, fmask m (map f l) = map f (fmask m l).
Proof.
  induction m as [|b m IH]; intros l; [reflexivity|].
  destruct l as [|a l]; [reflexivity|]. simpl. destruct b; simpl; rewrite IH; reflexivity.
Qed.

Lemma fmask_map2 : forall A B C (f : A -> B -> C) m l1 l2,
  fmask m (map2 f l1 l2) = map2 f (fmask m l1) (fmask m l2).
Proof.
  induction m as [|b m IH]; intros l1 l2.
  - reflexivity.
  - destruct l1 as [|a l1]; [reflexivity|].
    destruct l2 as [|c l2].
    + simpl. destruct b; [|destruct (fmask m l1); reflexivity].
      destruct (fmask m l1); reflexivity.
    + simpl. destruct b; simpl; rewrite IH; reflexivity.
Qed.

Lemma fmask_Forall : forall A (P : A -> Prop) m l, Forall P l -> Forall P (fmask m l).
Proof.
  induction m as [|b m IH]; intros l H; [constructor|].
  destruct l as [|a l]; [constructor|]. inversion H; subst.
  simpl. destruct b; [constructor|]; auto.
Qed.

Lemma rids_map_fst : forall A B (g : nat * A -> nat * B) rows,
  (forall r, fst (g r) = fst r) -> rids (map g rows) = rids rows.
Proof.
  intros A B g rows Hg. unfold rids. rewrite map_map. apply map_ext. exact Hg.
Qed.

Lemma rids_map2_fst : forall A B C (g : nat * A -> nat * B -> nat * C) r1 r2,
  (forall x y, fst (g x y) = fst x) -> length r1 = length r2 -> rids (map2 g r1 r2) = rids r1.
Proof.
  intros A B C g. induction r1 as [|x r1 IH]; destruct r2 as [|y r2]; simpl; intros Hg H;
    try discriminate; [reflexivity|].
  rewrite Hg. f_equal. apply IH; [exact Hg|lia].
Qed.

Lemma rids_fmask : forall A m (rows : list (nat * A)), rids (fmask m rows) = fmask m (rids rows).
Proof. intros. unfold rids. symmetry. apply fmask_map. Qed.

Lemma rids_length : forall A B (r1 : list (nat * A)) (r2 : list (nat * B)),
  rids r1 = rids r2 -> length r1 = length r2.
Proof.
  intros A B r1 r2 H. unfold rids in H.
  rewrite <- (map_length (@fst nat A) r1), H. apply map_length.
Qed.

(* ------------------------------------------------------------------ *)
(** * Well-formed objects *)

Definition wf (o : obj) : Prop :=
  match o with
  | OFrame cs rows => nodupb cs = true /\ Forall (fun r => length (snd r) = length cs) rows
  | _ => True
  end.

Lemma o_proj_inv : forall c o o', o_proj c o = Some o' ->
  exists cs rows, o = OFrame cs rows /\ nodupb c = true /\ subsetb c cs = true /\
                  o' = OFrame c (map (proj_row cs c) rows).
Proof.
  intros c [cs rows| | |] o' H; simpl in H; try discriminate.
  destruct (nodupb c && subsetb c cs) eqn:E; [|discriminate].
  apply andb_true_iff in E. destruct E. inversion H; subst. eauto 10.
Qed.

Lemma o_proj_frame : forall c cs rows, nodupb c = true -> subsetb c cs = true ->
  o_proj c (OFrame cs rows) = Some (OFrame c (map (proj_row cs c) rows)).
Proof. intros c cs rows H1 H2. simpl. rewrite H1, H2. reflexivity. Qed.

Lemma o_proj_wf : forall c o o', o_proj c o = Some o' -> wf o'.
Proof.
  intros c o o' H. apply o_proj_inv in H. destruct H as (cs & rows & -> & Hn & Hs & ->).
  split; [exact Hn|]. apply Forall_forall. intros r Hr.
  apply in_map_iff in Hr. destruct Hr as (r0 & <- & _). simpl. apply map_length.
Qed.

Lemma o_map_wf : forall f o, wf o -> wf (o_map f o).
Proof.
  intros f [cs rows| | |] H; simpl; auto.
  destruct H as [Hn Hf]. split; [exact Hn|].
  apply Forall_forall. intros r Hr. apply in_map_iff in Hr. destruct Hr as (r0 & <- & Hr0).
  simpl. rewrite map_length. rewrite Forall_forall in Hf. auto.
Qed.

Lemma o_filter_wf : forall o p o', wf o -> o_filter o p = Some o' -> wf o'.
Proof.
  intros [cs rows|rows| |] [|ps| |] o' Hw H; simpl in H; try discriminate;
    destruct (list_eqb _ _); try discriminate; inversion H; subst; simpl; auto.
  destruct Hw as [Hn Hf]. split; [exact Hn|]. apply fmask_Forall. exact Hf.
Qed.

Lemma map2_Forall : forall A B C (g : A -> B -> C) (P : A -> Prop) (Q : C -> Prop) l1 l2,
  (forall a b, P a -> Q (g a b)) -> Forall P l1 -> Forall Q (map2 g l1 l2).
Proof.
  intros A B C g P Q. induction l1 as [|a l1 IH]; intros l2 Hg H; [constructor|].
  destruct l2 as [|b l2]; [constructor|]. inversion H; subst. simpl. constructor; auto.
Qed.

Lemma map2_Forall2 : forall A B C (g : A -> B -> C) (P : A -> Prop) (P' : B -> Prop) (Q : C -> Prop) l1 l2,
  (forall a b, P a -> P' b -> Q (g a b)) -> Forall P l1 -> Forall P' l2 -> Forall Q (map2 g l1 l2).
Proof.
  intros A B C g P P' Q. induction l1 as [|a l1 IH]; intros l2 Hg H H'; [constructor|].
  destruct l2 as [|b l2]; [constructor|]. inversion H; inversion H'; subst. simpl. constructor; auto.
Qed.

Lemma o_bin_wf : forall f a b o, wf a -> wf b -> o_bin f a b = Some o -> wf o.
Proof.
  intros f [cs1 r1|r1|c1|] [cs2 r2|r2|c2|] o Ha Hb H; simpl in H; try discriminate.
  - destruct (list_eqb cs1 cs2 && list_eqb (rids r1) (rids r2)) eqn:E; [|discriminate].
    apply andb_true_iff in E. destruct E as [E1 E2]. apply list_eqb_eq in E1. subst cs2.
    inversion H; subst. destruct Ha as [Hn Hf]. destruct Hb as [_ Hf2].
    split; [exact Hn|].
    eapply map2_Forall2; [|exact Hf|exact Hf2].
    intros x y Hx Hy. simpl. rewrite map2_length; congruence.
  - inversion H; subst. apply (o_map_wf _ (OFrame cs1 r1)). exact Ha.
  - destruct (list_eqb _ _); [|discriminate]. inversion H; subst. exact I.
  - inversion H; subst. exact I.
  - inversion H; subst. apply (o_map_wf _ (OFrame cs2 r2)). exact Hb.
  - inversion H; subst. exact I.
  - inversion H; subst. exact I.
Qed.

Lemma assign_cols_nodup : forall cs k, nodupb cs = true -> nodupb (assign_cols cs k) = true.
Proof.
  intros cs k H. unfold assign_cols. destruct (memb k cs) eqn:E; [exact H|].
  apply nodupb_NoDup. apply nodupb_NoDup in H. apply memb_false_notin in E.
  apply NoDup_rev in H. rewrite <- (rev_involutive (cs ++ [k])). apply NoDup_rev.
  rewrite rev_app_distr. simpl. constructor; [|exact H].
  rewrite <- in_rev. exact E.
Qed.

Lemma assign_row_length : forall cs k vals v, length vals = length cs ->
  length (assign_row cs k vals v) = length (assign_cols cs k).
Proof.
  intros cs k vals v H. unfold assign_row, assign_cols. destruct (memb k cs).
  - rewrite map2_length; auto.
  - rewrite !app_length. simpl. lia.
Qed.

Lemma o_assign_wf : forall k o v o', wf o -> o_assign k o v = Some o' -> wf o'.
Proof.
  intros k [cs rows| | |] [|vs| |] o' Hw H; simpl in H; try discriminate.
  destruct (list_eqb _ _); [|discriminate]. inversion H; subst.
  destruct Hw as [Hn Hf]. split; [apply assign_cols_nodup; exact Hn|].
  eapply map2_Forall; [|exact Hf]. intros r x Hr. simpl. apply assign_row_length. exact Hr.
Qed.

Lemma o_rename_wf : forall m o o', wf o -> o_rename m o = Some o' -> wf o'.
Proof.
  intros m [cs rows| | |] o' Hw H; simpl in H; try discriminate.
  destruct (nodupb (map (ren m) cs)) eqn:E; [|discriminate]. inversion H; subst.
  destruct Hw as [_ Hf]. split; [exact E|]. rewrite map_length. exact Hf.
Qed.

Lemma table_wf : forall rho id o, table rho id = Some o -> wf o.
Proof.
  intros rho id o H. unfold table in H. destruct (rho id) as [[tc rows]|]; [|discriminate].
  destruct (wf_tableb tc rows) eqn:E; [|discriminate]. inversion H; subst.
  unfold wf_tableb in E. apply andb_true_iff in E. destruct E as [E1 E2].
  split; [exact E1|]. apply Forall_forall. intros r Hr. rewrite forallb_forall in E2.
  apply Nat.eqb_eq. apply E2. exact Hr.
Qed.

Lemma o_projs_wf : forall c o o', o_projs c o = Some o' -> wf o'.
Proof.
  intros c [cs rows| | |] o' H; simpl in H; try discriminate.
  destruct (memb c cs); [|discriminate]. inversion H; subst. exact I.
Qed.

Lemma o_reduce_wf : forall f o o', o_reduce f o = Some o' -> wf o'.
Proof. intros f [| | |] o' H; simpl in H; try discriminate; inversion H; subst; exact I. Qed.
Lemma o_len_wf : forall o o', o_len o = Some o' -> wf o'.
Proof. intros [| | |] o' H; simpl in H; try discriminate; inversion H; subst; exact I. Qed.

Theorem den_wf : forall rho e o, den rho e = Some o -> wf o.
Proof.
  intros rho. induction e; intros o' H; simpl in H.
  - inv_bind H. eapply o_proj_wf; eauto.
  - inv_bind H. eapply o_projs_wf; eauto.
  - inv_bind H. eapply o_proj_wf; eauto.
  - inv_bind H. eapply o_projs_wf; eauto.
  - inv_bind H. inv_bind H. eapply o_filter_wf; [|exact H]. eauto.
  - inv_bind H. inversion H; subst. apply o_map_wf. eauto.
  - inv_bind H. inversion H; subst. apply o_map_wf. eauto.
  - inv_bind H. inv_bind H. eapply o_bin_wf; [| |exact H]; eauto.
  - inv_bind H. inversion H; subst. apply o_map_wf. eauto.
  - inv_bind H. inversion H; subst. apply o_map_wf. eauto.
  - inv_bind H. inv_bind H. eapply o_assign_wf; [|exact H]; eauto.
  - inv_bind H. eapply o_rename_wf; [|exact H]; eauto.
  - inv_bind H. eapply o_reduce_wf; eauto.
  - inv_bind H. eapply o_reduce_wf; eauto.
  - inv_bind H. eapply o_len_wf; eauto.
Qed.

(* ------------------------------------------------------------------ *)
(** * Schema soundness *)

Lemma k_proj_sound : forall c o o', o_proj c o = Some o' -> k_proj c (kind_of o) = Some (kind_of o').
Proof.
  intros c o o' H. apply o_proj_inv in H. destruct H as (cs & rows & -> & Hn & Hs & ->).
  simpl. rewrite Hn, Hs. reflexivity.
Qed.
Lemma k_projs_sound : forall c o o', o_projs c o = Some o' -> k_projs c (kind_of o) = Some (kind_of o').
Proof.
  intros c [cs rows| | |] o' H; simpl in H; try discriminate.
  simpl. destruct (memb c cs); [|discriminate]. inversion H; subst. reflexivity.
Qed.
Lemma k_map_sound : forall f o, kind_of (o_map f o) = kind_of o.
Proof. intros f [| | |]; reflexivity. Qed.
Lemma k_filter_sound : forall o p o', o_filter o p = Some o' ->
  k_filter (kind_of o) (kind_of p) = Some (kind_of o').
Proof.
  intros [cs rows|rows| |] [|ps| |] o' H; simpl in H; try discriminate;
    destruct (list_eqb _ _); try discriminate; inversion H; subst; reflexivity.
Qed.
Lemma k_bin_sound : forall f a b o, o_bin f a b = Some o -> k_bin (kind_of a) (kind_of b) = Some (kind_of o).
Proof.
  intros f [cs1 r1|r1|c1|] [cs2 r2|r2|c2|] o H; simpl in H; try discriminate;
    try (inversion H; subst; reflexivity).
  - destruct (list_eqb cs1 cs2) eqn:E; simpl in H; [|discriminate].
    destruct (list_eqb (rids r1) (rids r2)); [|discriminate]. inversion H; subst.
    simpl. rewrite E. reflexivity.
  - destruct (list_eqb _ _); [|discriminate]. inversion H; subst. reflexivity.
Qed.
Lemma k_assign_sound : forall k a v o, o_assign k a v = Some o ->
  k_assign k (kind_of a) (kind_of v) = Some (kind_of o).
Proof.
  intros k [cs rows| | |] [|vs| |] o H; simpl in H; try discriminate.
  destruct (list_eqb _ _); [|discriminate]. inversion H; subst. reflexivity.
Qed.
Lemma k_rename_sound : forall m a o, o_rename m a = Some o -> k_rename m (kind_of a) = Some (kind_of o).
Proof.
  intros m [cs rows| | |] o H; simpl in H; try discriminate.
  simpl. destruct (nodupb (map (ren m) cs)); [|discriminate]. inversion H; subst. reflexivity.
Qed.
Lemma k_reduce_sound : forall f a o, o_reduce f a = Some o -> k_reduce (kind_of a) = Some (kind_of o).
Proof. intros f [| | |] o H; simpl in H; try discriminate; inversion H; subst; reflexivity. Qed.
Lemma k_len_sound : forall a o, o_len a = Some o -> k_len (kind_of a) = Some (kind_of o).
Proof. intros [| | |] o H; simpl in H; try discriminate; inversion H; subst; reflexivity. Qed.

Lemma table_frame : forall rho id o, table rho id = Some o -> exists tc rows, o = OFrame tc rows.
Proof.
  intros rho id o H. unfold table in H. destruct (rho id) as [[tc rows]|]; [|discriminate].
  destruct (wf_tableb tc rows); [|discriminate]. inversion H; subst. eauto.
Qed.

Theorem schema_sound : forall rho e o, den rho e = Some o -> schema e = Some (kind_of o).
Proof.
  intros rho. induction e; intros o' H; simpl in H; simpl.
  - inv_bind H. apply o_proj_inv in H. destruct H as (tc & rows & -> & Hn & Hs & ->).
    rewrite Hn. reflexivity.
  - inv_bind H. destruct (table_frame _ _ _ Ha) as (tc & rows & ->).
    simpl in H. destruct (memb c tc); [|discriminate]. inversion H; subst. reflexivity.
  - inv_bind H. rewrite (IHe _ Ha). simpl. eapply k_proj_sound; eauto.
  - inv_bind H. rewrite (IHe _ Ha). simpl. eapply k_projs_sound; eauto.
  - inv_bind H. inv_bind H. rewrite (IHe1 _ Ha), (IHe2 _ Ha0). simpl. eapply k_filter_sound; eauto.
  - inv_bind H. inversion H; subst. rewrite (IHe _ Ha), k_map_sound. reflexivity.
  - inv_bind H. inversion H; subst. rewrite (IHe _ Ha), k_map_sound. reflexivity.
  - inv_bind H. inv_bind H. rewrite (IHe1 _ Ha), (IHe2 _ Ha0). simpl. eapply k_bin_sound; eauto.
  - inv_bind H. inversion H; subst. rewrite (IHe _ Ha), k_map_sound. reflexivity.
  - inv_bind H. inversion H; subst. rewrite (IHe _ Ha), k_map_sound. reflexivity.
  - inv_bind H. inv_bind H. rewrite (IHe1 _ Ha), (IHe2 _ Ha0). simpl. eapply k_assign_sound; eauto.
  - inv_bind H. rewrite (IHe _ Ha). simpl. eapply k_rename_sound; eauto.
  - inv_bind H. rewrite (IHe _ Ha). simpl. eapply k_reduce_sound; eauto.
  - inv_bind H. rewrite (IHe _ Ha). simpl. eapply k_reduce_sound; eauto.
  - inv_bind H. rewrite (IHe _ Ha). simpl. eapply k_len_sound; eauto.
Qed.

Lemma den_frame_cols : forall rho x xs o, schema x = Some (KFrame xs) -> den rho x = Some o ->
  exists rows, o = OFrame xs rows /\ wf o.
Proof.
  intros rho x xs o Hs Hd. pose proof (den_wf _ _ _ Hd) as Hw.
  apply schema_sound in Hd. rewrite Hs in Hd. inversion Hd as [Hk].
  destruct o; simpl in Hk; try discriminate. inversion Hk; subst. eauto.
Qed.

(* ------------------------------------------------------------------ *)
(** * Congruence / monotonicity of the denotation under [subst] *)

Definition refines (a b : expr) : Prop := forall rho o, den rho a = Some o -> den rho b = Some o.

Lemma subst_unfold : forall old new e,
  subst old new e =
  if expr_eqb old e then new else
  match e with
  | Src _ _ | SrcS _ _ => e
  | Proj e1 cs => Proj (subst old new e1) cs
  | ProjS e1 c => ProjS (subst old new e1) c
  | Filter e1 p => Filter (subst old new e1) (subst old new p)
  | BinL o e1 z => BinL o (subst old new e1) z
  | BinR o z e1 => BinR o z (subst old new e1)
  | Bin o a b => Bin o (subst old new a) (subst old new b)
  | Un u e1 => Un u (subst old new e1)
  | Fillna e1 z => Fillna (subst old new e1) z
  | Assign e1 k v => Assign (subst old new e1) k (subst old new v)
  | Rename e1 m => Rename (subst old new e1) m
  | RSum e1 => RSum (subst old new e1)
  | RCount e1 => RCount (subst old new e1)
  | RLen e1 => RLen (subst old new e1)
  end.
Proof. intros old new e. destruct e; reflexivity. Qed.

Theorem subst_refines : forall a b, refines a b -> forall e, refines e (subst a b e).
Proof.
  intros a b Hab. unfold refines.
  induction e; intros rho o' H; rewrite subst_unfold;
    (destruct (expr_eqb a _) eqn:E; [apply expr_eqb_eq in E; subst a; apply Hab; exact H|]);
    try exact H; simpl in H; simpl.
  - inv_bind H. rewrite (IHe _ _ Ha). exact H.
  - inv_bind H. rewrite (IHe _ _ Ha). exact H.
  - inv_bind H. inv_bind H. rewrite (IHe1 _ _ Ha), (IHe2 _ _ Ha0). exact H.
  - inv_bind H. rewrite (IHe _ _ Ha). exact H.
  - inv_bind H. rewrite (IHe _ _ Ha). exact H.
  - inv_bind H. inv_bind H. rewrite (IHe1 _ _ Ha), (IHe2 _ _ Ha0). exact H.
  - inv_bind H. rewrite (IHe _ _ Ha). exact H.
  - inv_bind H. rewrite (IHe _ _ Ha). exact H.
  - inv_bind H. inv_bind H. rewrite (IHe1 _ _ Ha), (IHe2 _ _ Ha0). exact H.
  - inv_bind H. rewrite (IHe _ _ Ha). exact H.
  - inv_bind H. rewrite (IHe _ _ Ha). exact H.
  - inv_bind H. rewrite (IHe _ _ Ha). exact H.
  - inv_bind H. rewrite (IHe _ _ Ha). exact H.
Qed.

(* Congruence proper: replacing a by an extensionally equal b anywhere does not change the meaning. *)
Theorem den_congruence : forall a b, (forall rho, den rho a = den rho b) ->
  forall rho C, den rho (subst a b C) = den rho C.
Proof.
  intros a b Hab rho.
  induction C; rewrite subst_unfold;
    (destruct (expr_eqb a _) eqn:E; [apply expr_eqb_eq in E; subst a; symmetry; apply Hab|]);
    try reflexivity; simpl;
    repeat match goal with IH : den rho (subst a b _) = _ |- _ => rewrite IH; clear IH end;
    reflexivity.
Qed.

(* the same for static schemas *)
Theorem schema_congruence : forall a b, schema a = schema b ->
  forall C, schema (subst a b C) = schema C.
Proof.
  intros a b Hab.
  induction C; rewrite subst_unfold;
    (destruct (expr_eqb a _) eqn:E; [apply expr_eqb_eq in E; subst a; symmetry; apply Hab|]);
    try reflexivity; simpl;
    repeat match goal with IH : schema (subst a b _) = _ |- _ => rewrite IH; clear IH end;
    reflexivity.
Qed.

(* ------------------------------------------------------------------ *)
(** * The outer projection context *)

Definition oref (A B : option obj) : Prop := forall o, A = Some o -> B = Some o.
Definition kref (A B : option kind) : Prop := forall k, A = Some k -> B = Some k.
Definition spres (p r : expr) : Prop := forall k, schema p = Some k -> schema r = Some k.

Definition o_P (P : pctx) (o : obj) : option obj :=
  match P with PProj c => o_proj c o | PProjS c => o_projs c o end.
Definition to_series (o : obj) : option obj :=
  match o with
  | OFrame _ rows => Some (OSeries (map (fun r => (fst r, hd None (snd r))) rows))
  | _ => None
  end.
Definition post (P : pctx) (o : obj) : option obj :=
  match P with PProj _ => Some o | PProjS _ => to_series o end.

Lemma o_P_via : forall P o, o_P P o = bind (o_proj (pcols P) o) (post P).
Proof.
  intros [c|c] o; simpl.
  - destruct (o_proj c o); reflexivity.
  - destruct o as [cs rows| | |]; simpl; try reflexivity.
    rewrite andb_true_r. destruct (memb c cs); simpl; [|reflexivity].
    rewrite map_map. reflexivity.
Qed.

Lemma den_pbuild : forall rho P e, den rho (pbuild P e) = bind (den rho e) (o_P P).
Proof. intros rho [c|c] e; reflexivity. Qed.

Lemma pview_inv : forall e P e', pview e = Some (P, e') -> e = pbuild P e'.
Proof. intros e P e' H. destruct e; simpl in H; try discriminate; inversion H; subst; reflexivity. Qed.

Lemma P_lift : forall P (A B : option obj),
  oref (bind A (o_proj (pcols P))) (bind B (o_proj (pcols P))) ->
  oref (bind A (o_P P)) (bind B (o_P P)).
Proof.
  intros P A B H o Ho.
  assert (E : forall X, bind X (o_P P) = bind (bind X (o_proj (pcols P))) (post P)).
  { intros [x|]; simpl; [apply o_P_via|reflexivity]. }
  rewrite E in *. inv_bind Ho. rewrite (H _ Ha). exact Ho.
Qed.

Definition k_P (P : pctx) (k : kind) : option kind :=
  match P with PProj c => k_proj c k | PProjS c => k_projs c k end.
Definition k_post (P : pctx) (k : kind) : option kind :=
  match P with
  | PProj _ => Some k
  | PProjS _ => match k with KFrame _ => Some KSeries | _ => None end
  end.
Lemma k_P_via : forall P k, k_P P k = bind (k_proj (pcols P) k) (k_post P).
Proof.
  intros [c|c] k; simpl.
  - destruct (k_proj c k); reflexivity.
  - destruct k; simpl; try reflexivity.
    rewrite andb_true_r. destruct (memb c cs); reflexivity.
Qed.
Lemma schema_pbuild : forall P e, schema (pbuild P e) = bind (schema e) (k_P P).
Proof. intros [c|c] e; reflexivity. Qed.
Lemma kP_lift : forall P (A B : option kind),
  kref (bind A (k_proj (pcols P))) (bind B (k_proj (pcols P))) ->
  kref (bind A (k_P P)) (bind B (k_P P)).
Proof.
  intros P A B H o Ho.
  assert (E : forall X, bind X (k_P P) = bind (bind X (k_proj (pcols P))) (k_post P)).
  { intros [x|]; simpl; [apply k_P_via|reflexivity]. }
  rewrite E in *. inv_bind Ho. rewrite (H _ Ha). exact Ho.
Qed.

(* ------------------------------------------------------------------ *)
(** * Algebra of projections *)

Lemma proj_proj_eq : forall U c X Y, o_proj U X = Some Y -> subsetb c U = true ->
  o_proj c Y = o_proj c X.
Proof.
  intros U c X Y H Hc. apply o_proj_inv in H. destruct H as (cs & rows & -> & Hn & Hs & ->).
  simpl. rewrite Hc, (subsetb_trans _ _ _ Hc Hs).
  destruct (nodupb c); simpl; [|reflexivity].
  f_equal. f_equal. rewrite map_map. apply map_ext. intros r. unfold proj_row. simpl.
  f_equal. apply map_ext_in. intros a Ha. apply sel_map_self.
  rewrite subsetb_incl in Hc. auto.
Qed.

Lemma k_proj_proj_eq : forall U c K K', k_proj U K = Some K' -> subsetb c U = true ->
  k_proj c K' = k_proj c K.
Proof.
  intros U c [cs| | |] K' H Hc; simpl in H; try discriminate.
  destruct (nodupb U && subsetb U cs) eqn:E; [|discriminate]. inversion H; subst.
  apply andb_true_iff in E. destruct E as [_ E].
  simpl. rewrite Hc, (subsetb_trans _ _ _ Hc E). reflexivity.
Qed.

Lemma k_proj_inv : forall c K K', k_proj c K = Some K' ->
  exists cs, K = KFrame cs /\ nodupb c = true /\ subsetb c cs = true /\ K' = KFrame c.
Proof.
  intros c [cs| | |] K' H; simpl in H; try discriminate.
  destruct (nodupb c && subsetb c cs) eqn:E; [|discriminate]. inversion H; subst.
  apply andb_true_iff in E. destruct E. eauto.
Qed.

Lemma proj_id : forall cs rows, wf (OFrame cs rows) -> o_proj cs (OFrame cs rows) = Some (OFrame cs rows).
Proof.
  intros cs rows [Hn Hf]. simpl. rewrite Hn, subsetb_refl. simpl. f_equal. f_equal.
  rewrite <- (map_id rows) at 2. apply map_ext_in. intros [r vals] Hr.
  unfold proj_row. simpl. f_equal. apply sel_id.
  - apply nodupb_NoDup. exact Hn.
  - rewrite Forall_forall in Hf. apply (Hf _ Hr).
Qed.

(* ------------------------------------------------------------------ *)
(** * S1, S2, S9 *)

Lemma s1_sem : forall a c (X : option obj),
  oref (bind (bind X (o_proj a)) (o_proj c)) (bind X (o_proj c)).
Proof.
  intros a c [X|] o H; simpl in *; [|discriminate].
  inv_bind H. rewrite <- (proj_proj_eq _ _ _ _ Ha); [exact H|].
  apply o_proj_inv in H. destruct H as (cs & rows & E & _ & Hs & _).
  apply o_proj_inv in Ha. destruct Ha as (cs' & rows' & _ & _ & _ & ->).
  inversion E; subst. exact Hs.
Qed.

Lemma s1_ksem : forall a c (K : option kind),
  kref (bind (bind K (k_proj a)) (k_proj c)) (bind K (k_proj c)).
Proof.
  intros a c [K|] o H; simpl in *; [|discriminate].
  inv_bind H. rewrite <- (k_proj_proj_eq _ _ _ _ Ha); [exact H|].
  apply k_proj_inv in H. destruct H as (cs & E & _ & Hs & _).
  apply k_proj_inv in Ha. destruct Ha as (cs' & _ & _ & _ & ->).
  inversion E; subst. exact Hs.
Qed.

Lemma s1_sound : forall p r, s1_ok p r = true -> refines p r /\ spres p r.
Proof.
  intros p r H. unfold s1_ok in H.
  destruct (pview p) as [[P inner]|] eqn:Ev; [|discriminate].
  destruct inner; try discriminate. apply expr_eqb_eq in H. subst r.
  apply pview_inv in Ev. subst p. split.
  - intros rho o. rewrite !den_pbuild. simpl. apply P_lift. apply s1_sem.
  - intros k. rewrite !schema_pbuild. simpl. apply kP_lift. apply s1_ksem.
Qed.

Lemma s2_sound : forall p r, s2_ok p r = true -> refines p r /\ spres p r.
Proof.
  intros p r H. unfold s2_ok in H. destruct p; try discriminate.
  destruct (schema p) as [[xs| | |]|] eqn:Es; try discriminate.
  apply andb_true_iff in H. destruct H as [H1 H2].
  apply list_eqb_eq in H1. apply expr_eqb_eq in H2. subst. split.
  - intros rho o H. simpl in H. inv_bind H.
    destruct (den_frame_cols _ _ _ _ Es Ha) as (rows & -> & Hw).
    rewrite proj_id in H by exact Hw. rewrite <- H. exact Ha.
  - intros k H. simpl in H. rewrite Es in *. simpl in H.
    destruct (nodupb xs && subsetb xs xs); [|discriminate]. exact H.
Qed.

Lemma s9_sound : forall p r, s9_ok p r = true -> refines p r /\ spres p r.
Proof.
  intros p r H. unfold s9_ok in H.
  destruct (pview p) as [[P inner]|] eqn:Ev; [|discriminate].
  destruct inner; try discriminate. apply pview_inv in Ev. subst p.
  apply orb_true_iff in H. destruct H as [H|H].
  - assert (Hr : forall rho, den rho r = bind (table rho id) (o_P P)).
    { intros rho. destruct P; apply expr_eqb_eq in H; subst r; reflexivity. }
    split.
    + intros rho o. rewrite den_pbuild, Hr. simpl. apply P_lift. apply s1_sem.
    + intros k Hk. rewrite schema_pbuild in Hk. simpl in Hk.
      destruct (nodupb cs); [|discriminate]. simpl in Hk.
      destruct P; apply expr_eqb_eq in H; subst r; cbn [k_P] in Hk; cbn [schema].
      * apply k_proj_inv in Hk. destruct Hk as (cs' & _ & Hn & _ & ->). rewrite Hn. reflexivity.
      * simpl in Hk. destruct (memb c cs); [|discriminate]. exact Hk.
  - destruct (pview r) as [[P' inner']|]; [|discriminate].
    destruct inner'; try discriminate. split_andb.
    match goal with H : expr_eqb _ _ = true |- _ => apply expr_eqb_eq in H; subst r end.
    rename cs0 into c'. split.
    + intros rho o. rewrite !den_pbuild. simpl. apply P_lift.
      intros o' Ho. rewrite bind_assoc in Ho. inv_bind Ho. inv_bind Ho.
      pose proof Ha0 as Hcs. apply o_proj_inv in Hcs.
      destruct Hcs as (tc & rows & -> & Hn & Hs & ->).
      assert (Hc' : subsetb c' tc = true) by (eapply subsetb_trans; eauto).
      rewrite Ha. cbn [bind]. rewrite (o_proj_frame c' tc rows) by assumption.
      cbn [bind]. erewrite proj_proj_eq; [|apply o_proj_frame; assumption|assumption].
      erewrite <- proj_proj_eq; [exact Ho|exact Ha0|].
      apply o_proj_inv in Ho. destruct Ho as (cs' & rows' & E & _ & Hs' & _).
      inversion E; subst. exact Hs'.
    + intros k. rewrite !schema_pbuild. simpl. apply kP_lift. intros k' Hk.
      destruct (nodupb cs); [|discriminate]. cbn [bind] in Hk.
      apply k_proj_inv in Hk. destruct Hk as (cs' & E & Hn & Hs & ->).
      match goal with H : nodupb c' = true |- _ => rewrite H end. cbn [bind k_proj].
      rewrite Hn. match goal with H : subsetb (pcols P) c' = true |- _ => rewrite H end.
      reflexivity.
Qed.

(* ------------------------------------------------------------------ *)
(** * Pushing a projection through a frame operator (S4, S5, S7, S8) *)

Definition opk_fun (k : opk) : cell -> cell :=
  match k with
  | OKBinL o z => fun c => bop_fun o c (Some z)
  | OKBinR o z => fun c => bop_fun o (Some z) c
  | OKUn u => uop_fun u
  | OKFill z => fillna_fun z
  end.
Definition o_F (F : fctx) (rho : env) (X : obj) : option obj :=
  match F with
  | FOp k => Some (o_map (opk_fun k) X)
  | FFilter p => bind (den rho p) (fun pd => o_filter X pd)
  | FAssign k v => bind (den rho v) (fun vd => o_assign k X vd)
  | FRename m => o_rename m X
  end.
Lemma den_fbuild : forall rho F x, den rho (fbuild F x) = bind (den rho x) (o_F F rho).
Proof. intros rho [[]| | |] x; reflexivity. Qed.

Definition k_F (F : fctx) (K : kind) : option kind :=
  match F with
  | FOp _ => Some K
  | FFilter p => bind (schema p) (fun kp => k_filter K kp)
  | FAssign k v => bind (schema v) (fun kv => k_assign k K kv)
  | FRename m => k_rename m K
  end.
Lemma schema_fbuild : forall F x, schema (fbuild F x) = bind (schema x) (k_F F).
Proof. intros [[]| | |] x; simpl; try reflexivity; destruct (schema x); reflexivity. Qed.

Lemma fview_inv : forall e F x, fview e = Some (F, x) -> e = fbuild F x.
Proof. intros e F x H. destruct e; simpl in H; try discriminate; inversion H; subst; reflexivity. Qed.

Lemma proj_map_comm : forall f c X, wf X ->
  o_proj c (o_map f X) = bind (o_proj c X) (fun Y => Some (o_map f Y)).
Proof.
  intros f c [cs rows| | |] Hw; simpl; try reflexivity.
  destruct (nodupb c && subsetb c cs) eqn:E; simpl; [|reflexivity].
  apply andb_true_iff in E. destruct E as [_ Hs]. rewrite subsetb_incl in Hs.
  destruct Hw as [_ Hf]. rewrite Forall_forall in Hf.
  f_equal. f_equal. rewrite !map_map. apply map_ext_in. intros r Hr.
  unfold proj_row. simpl. f_equal. rewrite map_map. apply map_ext_in. intros a Ha.
  apply sel_map; auto.
Qed.

Lemma filter_proj_comm : forall c X pd,
  bind (o_filter X pd) (o_proj c) = bind (o_proj c X) (fun Y => o_filter Y pd).
Proof.
  intros c [cs rows|rows|z|cs vals] pd; simpl.
  - destruct pd as [|ps| |]; simpl;
      try (destruct (nodupb c && subsetb c cs); reflexivity).
    destruct (nodupb c && subsetb c cs) eqn:E; simpl.
    + rewrite (rids_map_fst _ _ (proj_row cs c) rows) by reflexivity.
      destruct (list_eqb (rids rows) (rids ps)); simpl; [|reflexivity].
      rewrite E, fmask_map. reflexivity.
    + destruct (list_eqb (rids rows) (rids ps)); simpl; [|reflexivity].
      rewrite E. reflexivity.
  - destruct pd as [|ps| |]; simpl; try reflexivity.
    destruct (list_eqb (rids rows) (rids ps)); reflexivity.
  - reflexivity.
  - reflexivity.
Qed.

Lemma comm_F : forall F rho c X, bare_allowed F = true -> wf X ->
  bind (o_F F rho X) (o_proj c) = bind (o_proj c X) (o_F F rho).
Proof.
  intros [k|p|k v|m] rho c X Hb Hw; simpl in Hb; try discriminate; unfold o_F.
  - cbn [bind]. apply proj_map_comm. exact Hw.
  - destruct (den rho p) as [pd|]; cbn [bind].
    + apply filter_proj_comm.
    + destruct (o_proj c X); reflexivity.
Qed.

(* list lemmas for the Assign / Rename / Bin cases *)
Lemma map_map2 : forall A B C D (h : C -> D) (g : A -> B -> C) l1 l2,
  map h (map2 g l1 l2) = map2 (fun a b => h (g a b)) l1 l2.
Proof.
  induction l1 as [|a l1 IH]; destruct l2 as [|b l2]; simpl; try reflexivity.
  rewrite IH. reflexivity.
Qed.
Lemma map2_map_l : forall A A' B C (h : A -> A') (g : A' -> B -> C) l1 l2,
  map2 g (map h l1) l2 = map2 (fun a b => g (h a) b) l1 l2.
Proof.
  induction l1 as [|a l1 IH]; destruct l2 as [|b l2]; simpl; try reflexivity.
  rewrite IH. reflexivity.
Qed.
Lemma map2_map_r : forall A B B' C (h : B -> B') (g : A -> B' -> C) l1 l2,
  map2 g l1 (map h l2) = map2 (fun a b => g a (h b)) l1 l2.
Proof.
  induction l1 as [|a l1 IH]; destruct l2 as [|b l2]; simpl; try reflexivity.
  rewrite IH. reflexivity.
Qed.
Lemma map2_ext_Forall : forall A B C (f g : A -> B -> C) (P : A -> Prop) (Q : B -> Prop) l1 l2,
  Forall P l1 -> Forall Q l2 -> (forall a b, P a -> Q b -> f a b = g a b) ->
  map2 f l1 l2 = map2 g l1 l2.
Proof.
  induction l1 as [|a l1 IH]; destruct l2 as [|b l2]; simpl; intros H1 H2 Hfg; try reflexivity.
  inversion H1; inversion H2; subst. rewrite Hfg by assumption. f_equal. apply IH; assumption.
Qed.
Lemma map2_const_l : forall A B C (h : A -> C) (l1 : list A) (l2 : list B),
  length l1 = length l2 -> map2 (fun a _ => h a) l1 l2 = map h l1.
Proof.
  induction l1 as [|a l1 IH]; destruct l2 as [|b l2]; simpl; intros H; try discriminate;
    [reflexivity|]. rewrite IH by lia. reflexivity.
Qed.
Lemma map2_same : forall A B C D (f : B -> C -> D) (g1 : A -> B) (g2 : A -> C) l,
  map2 f (map g1 l) (map g2 l) = map (fun a => f (g1 a) (g2 a)) l.
Proof. induction l as [|a l IH]; simpl; [reflexivity|]. rewrite IH. reflexivity. Qed.
Lemma Forall_True : forall A (l : list A), Forall (fun _ => True) l.
Proof. intros. apply Forall_forall. auto. Qed.

Lemma assign_cols_In : forall cs k a, In a (assign_cols cs k) <-> a = k \/ In a cs.
Proof.
  intros cs k a. unfold assign_cols. destruct (memb k cs) eqn:E.
  - apply memb_In in E. split; [auto|]. intros [->|H]; auto.
  - rewrite in_app_iff. simpl. split; intros H; intuition.
Qed.

Lemma sel_app_last : forall cs vals k v c, length vals = length cs -> ~ In k cs ->
  sel (cs ++ [k]) (vals ++ [v]) c = if Nat.eqb c k then v else sel cs vals c.
Proof.
  induction cs as [|x cs IH]; intros vals k v c Hl Hk.
  - destruct vals; [|discriminate]. simpl. destruct (Nat.eqb c k); reflexivity.
  - destruct vals as [|w vals]; [discriminate|]. simpl.
    destruct (Nat.eqb c x) eqn:E.
    + apply Nat.eqb_eq in E. subst c. destruct (Nat.eqb x k) eqn:E2; [|reflexivity].
      apply Nat.eqb_eq in E2. subst. exfalso. apply Hk. left. reflexivity.
    + apply IH; [simpl in Hl; lia|]. intros H. apply Hk. right. exact H.
Qed.

Lemma sel_upd : forall cs vals k v c, length vals = length cs -> In k cs ->
  sel cs (map2 (fun c' old => if Nat.eqb c' k then v else old) cs vals) c
  = if Nat.eqb c k then v else sel cs vals c.
Proof.
  induction cs as [|x cs IH]; intros vals k v c Hl Hk; [inversion Hk|].
  destruct vals as [|w vals]; [discriminate|]. simpl.
  destruct (Nat.eqb c x) eqn:E.
  - apply Nat.eqb_eq in E. subst c. reflexivity.
  - destruct Hk as [Hk|Hk].
    + subst x. rewrite E.
      (* c <> k, and the remaining columns: the update is the identity on lookups of c *)
      clear IH. simpl in Hl. assert (Hl' : length vals = length cs) by lia. clear Hl.
      revert vals Hl'. induction cs as [|y cs IH2]; intros vals Hl'; [reflexivity|].
      destruct vals as [|u vals]; [discriminate|]. simpl.
      destruct (Nat.eqb c y) eqn:E3.
      * apply Nat.eqb_eq in E3. subst y. rewrite E. reflexivity.
      * apply IH2. simpl in Hl'. lia.
    + apply IH; [simpl in Hl; lia|exact Hk].
Qed.

Lemma sel_assign : forall cs k vals v c, length vals = length cs ->
  sel (assign_cols cs k) (assign_row cs k vals v) c = if Nat.eqb c k then v else sel cs vals c.
Proof.
  intros cs k vals v c Hl. unfold assign_cols, assign_row. destruct (memb k cs) eqn:E.
  - apply sel_upd; [exact Hl|]. apply memb_In. exact E.
  - apply sel_app_last; [exact Hl|]. apply memb_false_notin. exact E.
Qed.

Lemma NoDup_map_inj_on : forall (f : col -> col) xs, NoDup (map f xs) ->
  forall a b, In a xs -> In b xs -> f a = f b -> a = b.
Proof.
  induction xs as [|x xs IH]; intros Hnd a b Ha Hb Hab; [inversion Ha|].
  simpl in Hnd. inversion Hnd as [|? ? Hx Hnd']; subst.
  destruct Ha as [Ha|Ha]; destruct Hb as [Hb|Hb]; subst.
  - reflexivity.
  - exfalso. apply Hx. rewrite Hab. apply in_map. exact Hb.
  - exfalso. apply Hx. rewrite <- Hab. apply in_map. exact Ha.
  - apply IH; assumption.
Qed.

Lemma NoDup_map_sub : forall (f : col -> col) xs U, NoDup (map f xs) -> NoDup U ->
  (forall u, In u U -> In u xs) -> NoDup (map f U).
Proof.
  intros f xs U Hx. induction U as [|u U IH]; intros HU Hsub; [constructor|].
  inversion HU as [|? ? Hu HU']; subst. simpl. constructor.
  - intros Hin. apply in_map_iff in Hin. destruct Hin as (u' & Hf & Hu').
    assert (u' = u).
    { eapply NoDup_map_inj_on; eauto. - apply Hsub. right. exact Hu'. - apply Hsub. left. reflexivity. }
    subst. contradiction.
  - apply IH; [exact HU'|]. intros u' Hu'. apply Hsub. right. exact Hu'.
Qed.

Lemma sel_ren : forall (f : col -> col) cs vals u, NoDup (map f cs) -> In u cs ->
  sel (map f cs) vals (f u) = sel cs vals u.
Proof.
  induction cs as [|x cs IH]; intros vals u Hnd Hu; [inversion Hu|].
  destruct vals as [|v vals]; [reflexivity|]. simpl.
  destruct (Nat.eqb u x) eqn:E.
  - apply Nat.eqb_eq in E. subst. rewrite Nat.eqb_refl. reflexivity.
  - destruct (Nat.eqb (f u) (f x)) eqn:E2.
    + apply Nat.eqb_eq in E2. exfalso.
      assert (u = x).
      { eapply (NoDup_map_inj_on f (x :: cs)); eauto. left. reflexivity. }
      subst. rewrite Nat.eqb_refl in E. discriminate.
    + simpl in Hnd. inversion Hnd; subst. apply IH; [assumption|].
      destruct Hu as [Hu|Hu]; [|exact Hu]. subst. rewrite Nat.eqb_refl in E. discriminate.
Qed.

Lemma remove_col_In : forall k c a, In a (remove_col k c) <-> In a c /\ a <> k.
Proof.
  intros k c a. unfold remove_col. rewrite filter_In, negb_true_iff, Nat.eqb_neq. tauto.
Qed.

Lemma assign_push : forall k xs rows vs c U Z,
  wf (OFrame xs rows) -> nodupb U = true -> subsetb U xs = true ->
  subsetb (remove_col k c) U = true ->
  bind (o_assign k (OFrame xs rows) (OSeries vs)) (o_proj c) = Some Z ->
  bind (o_assign k (OFrame U (map (proj_row xs U) rows)) (OSeries vs)) (o_proj c) = Some Z.
Proof.
  intros k xs rows vs c U Z [Hnx Hf] HnU HsU Hneed H.
  cbn [o_assign] in H. destruct (list_eqb (rids rows) (rids vs)) eqn:E; [|discriminate].
  cbn [bind] in H. apply o_proj_inv in H. destruct H as (cs' & rows' & Eq & Hn & Hs & ->).
  inversion Eq; subst cs' rows'. clear Eq.
  cbn [o_assign]. rewrite (rids_map_fst _ _ (proj_row xs U) rows) by reflexivity.
  rewrite E. cbn [bind].
  rewrite subsetb_incl in Hs, Hneed.
  assert (HcU : forall a, In a c -> a <> k -> In a U).
  { intros a Ha Hak. apply Hneed. apply remove_col_In. auto. }
  rewrite o_proj_frame; [|exact Hn|].
  - f_equal. f_equal. rewrite !map_map2, map2_map_l.
    apply map2_ext_Forall with (P := fun r => length (snd r) = length xs) (Q := fun _ => True);
      [exact Hf|apply Forall_True|].
    intros a b Ha _. unfold proj_row. cbn [fst snd]. f_equal.
    apply map_ext_in. intros c0 Hc0.
    rewrite !sel_assign; [|exact Ha|apply map_length].
    destruct (Nat.eqb c0 k) eqn:E0; [reflexivity|].
    apply sel_map_self. apply HcU; [exact Hc0|]. apply Nat.eqb_neq. exact E0.
  - apply subsetb_incl. intros a Ha. apply assign_cols_In.
    destruct (Nat.eq_dec a k) as [->|Hak]; [left; reflexivity|right; auto].
Qed.

Lemma rename_push : forall m xs rows c U Z,
  nodupb U = true -> subsetb U xs = true ->
  forallb (fun u => negb (memb (ren m u) c) || memb u U) xs = true ->
  bind (o_rename m (OFrame xs rows)) (o_proj c) = Some Z ->
  bind (o_rename m (OFrame U (map (proj_row xs U) rows))) (o_proj c) = Some Z.
Proof.
  intros m xs rows c U Z HnU HsU Hneed H.
  cbn [o_rename] in H. destruct (nodupb (map (ren m) xs)) eqn:E; [|discriminate].
  cbn [bind] in H. apply o_proj_inv in H. destruct H as (cs' & rows' & Eq & Hn & Hs & ->).
  inversion Eq; subst cs' rows'. clear Eq.
  apply nodupb_NoDup in E. rewrite subsetb_incl in Hs, HsU. rewrite forallb_forall in Hneed.
  assert (Hpre : forall a, In a c -> exists u, In u xs /\ In u U /\ ren m u = a).
  { intros a Ha. specialize (Hs _ Ha). apply in_map_iff in Hs. destruct Hs as (u & <- & Hu).
    exists u. split; [exact Hu|]. split; [|reflexivity].
    specialize (Hneed _ Hu). apply orb_true_iff in Hneed. destruct Hneed as [Hq|Hq].
    - apply negb_true_iff in Hq. apply memb_false_notin in Hq. contradiction.
    - apply memb_In. exact Hq. }
  assert (HndU : NoDup (map (ren m) U)).
  { eapply NoDup_map_sub; eauto. apply nodupb_NoDup. exact HnU. }
  cbn [o_rename]. replace (nodupb (map (ren m) U)) with true
    by (symmetry; apply nodupb_NoDup; exact HndU).
  cbn [bind]. rewrite o_proj_frame; [|exact Hn|].
  - f_equal. f_equal. rewrite map_map. apply map_ext. intros r. unfold proj_row. cbn [fst snd].
    f_equal. apply map_ext_in. intros a Ha.
    destruct (Hpre _ Ha) as (u & Hux & HuU & <-).
    rewrite sel_ren by assumption. rewrite sel_ren by assumption.
    apply sel_map_self. exact HuU.
  - apply subsetb_incl. intros a Ha. destruct (Hpre _ Ha) as (u & _ & HuU & <-).
    apply in_map. exact HuU.
Qed.

Lemma push_sem : forall F rho xs rows c U Z,
  wf (OFrame xs rows) -> nodupb U = true -> subsetb U xs = true -> need F xs c U = true ->
  bind (o_F F rho (OFrame xs rows)) (o_proj c) = Some Z ->
  bind (o_F F rho (OFrame U (map (proj_row xs U) rows))) (o_proj c) = Some Z.
Proof.
  intros F rho xs rows c U Z Hw HnU HsU Hneed H.
  pose proof (o_proj_frame U xs rows HnU HsU) as HY.
  destruct F as [k|p|k v|m].
  - rewrite comm_F in * by (try reflexivity; try exact Hw; eapply o_proj_wf; exact HY).
    rewrite (proj_proj_eq _ _ _ _ HY Hneed). exact H.
  - rewrite comm_F in * by (try reflexivity; try exact Hw; eapply o_proj_wf; exact HY).
    rewrite (proj_proj_eq _ _ _ _ HY Hneed). exact H.
  - unfold o_F in *. destruct (den rho v) as [vd|]; [|discriminate]. cbn [bind] in *.
    destruct vd as [|vs| |]; try discriminate.
    apply assign_push; assumption.
  - unfold o_F in *. apply rename_push; assumption.
Qed.

Lemma push_bare_sem : forall F rho X c Z,
  wf X -> bare_allowed F = true ->
  bind (o_F F rho X) (o_proj c) = Some Z -> bind (o_proj c X) (o_F F rho) = Some Z.
Proof. intros F rho X c Z Hw Hb H. rewrite <- comm_F by assumption. exact H. Qed.

(* kind level *)
Lemma push_ksem : forall F xs c U k,
  nodupb U = true -> subsetb U xs = true -> need F xs c U = true ->
  bind (k_F F (KFrame xs)) (k_proj c) = Some k ->
  bind (k_F F (KFrame U)) (k_proj c) = Some k.
Proof.
  intros F xs c U k HnU HsU Hneed H.
  destruct F as [op|p|a v|m]; unfold k_F in *.
  - cbn [bind] in *. apply k_proj_inv in H. destruct H as (cs & E & Hn & Hs & ->).
    simpl in Hneed. simpl. rewrite Hn, Hneed. reflexivity.
  - destruct (schema p) as [[| | |]|]; try discriminate. cbn [bind k_filter] in *.
    apply k_proj_inv in H. destruct H as (cs & E & Hn & Hs & ->).
    simpl in Hneed. simpl. rewrite Hn, Hneed. reflexivity.
  - destruct (schema v) as [[| | |]|]; try discriminate. cbn [bind k_assign] in *.
    apply k_proj_inv in H. destruct H as (cs & E & Hn & Hs & ->). inversion E; subst cs.
    simpl in Hneed. cbn [k_proj]. rewrite Hn.
    replace (subsetb c (assign_cols U a)) with true; [reflexivity|].
    symmetry. rewrite subsetb_incl in *. intros x Hx. apply assign_cols_In.
    destruct (Nat.eq_dec x a) as [->|Hxa]; [left; reflexivity|right].
    apply Hneed. apply remove_col_In. auto.
  - cbn [k_rename] in *. destruct (nodupb (map (ren m) xs)) eqn:E; [|discriminate].
    cbn [bind] in H. apply k_proj_inv in H. destruct H as (cs & Eq & Hn & Hs & ->).
    inversion Eq; subst cs. clear Eq.
    apply nodupb_NoDup in E. rewrite subsetb_incl in Hs, HsU. simpl in Hneed.
    rewrite forallb_forall in Hneed.
    assert (HndU : NoDup (map (ren m) U)).
    { eapply NoDup_map_sub; eauto. apply nodupb_NoDup. exact HnU. }
    replace (nodupb (map (ren m) U)) with true by (symmetry; apply nodupb_NoDup; exact HndU).
    cbn [bind k_proj]. rewrite Hn.
    replace (subsetb c (map (ren m) U)) with true; [reflexivity|].
    symmetry. apply subsetb_incl. intros x Hx. specialize (Hs _ Hx).
    apply in_map_iff in Hs. destruct Hs as (u & <- & Hu). apply in_map.
    specialize (Hneed _ Hu). apply orb_true_iff in Hneed. destruct Hneed as [Hq|Hq].
    + apply negb_true_iff in Hq. apply memb_false_notin in Hq. contradiction.
    + apply memb_In. exact Hq.
Qed.

Lemma push_bare_ksem : forall F xs c k, bare_allowed F = true ->
  bind (k_F F (KFrame xs)) (k_proj c) = Some k -> bind (k_proj c (KFrame xs)) (k_F F) = Some k.
Proof.
  intros F xs c k Hb H. destruct F as [op|p|a v|m]; simpl in Hb; try discriminate; unfold k_F in *.
  - cbn [bind] in H. rewrite H. reflexivity.
  - destruct (schema p) as [[| | |]|]; try discriminate. cbn [bind k_filter] in *.
    rewrite H. apply k_proj_inv in H. destruct H as (cs & E & Hn & Hs & ->). reflexivity.
Qed.

Lemma projs_map_comm : forall f c X, wf X ->
  o_projs c (o_map f X) = bind (o_projs c X) (fun Y => Some (o_map f Y)).
Proof.
  intros f c [cs rows| | |] Hw; simpl; try reflexivity.
  destruct (memb c cs) eqn:E; simpl; [|reflexivity].
  apply memb_In in E. destruct Hw as [_ Hf]. rewrite Forall_forall in Hf.
  f_equal. f_equal. rewrite !map_map. apply map_ext_in. intros r Hr. simpl. f_equal.
  apply sel_map; auto.
Qed.

Lemma filter_projs_comm : forall c X pd,
  bind (o_filter X pd) (o_projs c) = bind (o_projs c X) (fun Y => o_filter Y pd).
Proof.
  intros c [cs rows|rows|z|cs vals] pd; simpl.
  - destruct pd as [|ps| |]; simpl; try (destruct (memb c cs); reflexivity).
    destruct (memb c cs) eqn:E; simpl.
    + rewrite (rids_map_fst _ _ (fun r : nat * list cell => (fst r, sel cs (snd r) c)) rows)
        by reflexivity.
      destruct (list_eqb (rids rows) (rids ps)); simpl; [|reflexivity].
      rewrite E, fmask_map. reflexivity.
    + destruct (list_eqb (rids rows) (rids ps)); simpl; [|reflexivity].
      rewrite E. reflexivity.
  - destruct pd as [|ps| |]; simpl; try reflexivity.
    destruct (list_eqb (rids rows) (rids ps)); reflexivity.
  - reflexivity.
  - reflexivity.
Qed.

Lemma comm_F_s : forall F rho c X, bare_allowed F = true -> wf X ->
  bind (o_F F rho X) (o_projs c) = bind (o_projs c X) (o_F F rho).
Proof.
  intros [k|p|k v|m] rho c X Hb Hw; simpl in Hb; try discriminate; unfold o_F.
  - cbn [bind]. apply projs_map_comm. exact Hw.
  - destruct (den rho p) as [pd|]; cbn [bind].
    + apply filter_projs_comm.
    + destruct (o_projs c X); reflexivity.
Qed.

Lemma push_series_ksem : forall F K c k, bare_allowed F = true ->
  bind (k_F F K) (k_projs c) = Some k -> bind (k_projs c K) (k_F F) = Some k.
Proof.
  intros F K c k Hb H. destruct F as [op|p|a v|m]; simpl in Hb; try discriminate; unfold k_F in *.
  - cbn [bind] in H. rewrite H. reflexivity.
  - destruct (schema p) as [kp|]; [|discriminate]. cbn [bind] in *.
    destruct K as [cs| | |], kp; try discriminate; cbn [k_filter bind k_projs] in *.
    destruct (memb c cs); [|discriminate]. cbn [bind k_filter]. exact H.
Qed.

Ltac use_eqb :=
  repeat match goal with
         | H : expr_eqb _ _ = true |- _ => apply expr_eqb_eq in H
         | H : list_eqb _ _ = true |- _ => apply list_eqb_eq in H
         end.

Lemma push_sound : forall p r, push_rule p r <> 0 -> refines p r /\ spres p r.
Proof.
  intros p r H. unfold push_rule in H.
  destruct (pview p) as [[P inner]|] eqn:Ev; [|congruence].
  destruct (fview inner) as [[F x]|] eqn:Ef; [|congruence].
  destruct (schema x) as [[xs| | |]|] eqn:Es; try congruence.
  apply pview_inv in Ev. apply fview_inv in Ef. subst p inner.
  match type of H with (if ?b then _ else _) <> 0 => destruct b eqn:Eb; [|congruence] end.
  clear H. apply orb_true_iff in Eb. destruct Eb as [Eb|Eb3];
    [apply orb_true_iff in Eb; destruct Eb as [Eb|Eb]|].
  - destruct (inner_U (strip_p r)) as [U|]; [|discriminate]. split_andb. use_eqb. subst r.
    split.
    + intros rho o. rewrite !den_pbuild, !den_fbuild. cbn [den]. apply P_lift. intros Z HZ.
      destruct (den rho x) as [X|] eqn:Ex; [|discriminate].
      destruct (den_frame_cols _ _ _ _ Es Ex) as (rows & -> & Hw). cbn [bind] in *.
      rewrite o_proj_frame by assumption. cbn [bind]. apply push_sem; assumption.
    + intros k. rewrite !schema_pbuild, !schema_fbuild. cbn [schema]. rewrite Es. cbn [bind].
      apply kP_lift. intros k' Hk'.
      replace (k_proj U (KFrame xs)) with (Some (KFrame U)).
      * cbn [bind]. eapply push_ksem; eassumption.
      * simpl. match goal with H1 : nodupb U = true, H2 : subsetb U xs = true |- _ =>
                               rewrite H1, H2 end. reflexivity.
  - destruct P as [c|c]; [|discriminate].
    destruct (inner_U r) as [U|]; [|discriminate]. split_andb. use_eqb. subst r U.
    split.
    + intros rho o. cbn [pbuild]. rewrite !den_fbuild. cbn [den]. rewrite den_fbuild. intros HZ.
      destruct (den rho x) as [X|] eqn:Ex; [|discriminate].
      destruct (den_frame_cols _ _ _ _ Es Ex) as (rows & -> & Hw). cbn [bind] in *.
      apply push_bare_sem; assumption.
    + intros k. cbn [pbuild]. rewrite !schema_fbuild. cbn [schema]. rewrite schema_fbuild, Es.
      cbn [bind]. apply push_bare_ksem. assumption.
  - destruct P as [c|c]; [discriminate|]. split_andb. use_eqb. subst r.
    split.
    + intros rho o. cbn [pbuild]. rewrite !den_fbuild. cbn [den]. rewrite den_fbuild. intros HZ.
      destruct (den rho x) as [X|] eqn:Ex; [|discriminate].
      pose proof (den_wf _ _ _ Ex) as Hw. cbn [bind] in *.
      rewrite <- comm_F_s by assumption. exact HZ.
    + intros k. cbn [pbuild]. rewrite !schema_fbuild. cbn [schema]. rewrite schema_fbuild, Es.
      cbn [bind]. apply push_series_ksem. assumption.
Qed.

(* S7a *)
Lemma s7a_sound : forall p r, s7a_ok p r = true -> refines p r /\ spres p r.
Proof.
  intros p r H. unfold s7a_ok in H.
  destruct (pview p) as [[P inner]|] eqn:Ev; [|discriminate].
  destruct inner; try discriminate. apply pview_inv in Ev. subst p.
  split_andb. use_eqb. subst r.
  match goal with H : negb _ = true |- _ => apply negb_true_iff in H; apply memb_false_notin in H; rename H into Hk end.
  split.
  - intros rho o. rewrite !den_pbuild. cbn [den]. apply P_lift. intros Z HZ.
    inv_bind HZ. inv_bind Ha. inv_bind Ha. rename a0 into X, a1 into V. rewrite Ha0. cbn [bind].
    pose proof (den_wf _ _ _ Ha0) as Hw.
    destruct X as [xs rows| | |]; try discriminate. destruct V as [|vs| |]; try discriminate.
    cbn [o_assign] in Ha. destruct (list_eqb (rids rows) (rids vs)) eqn:E; [|discriminate].
    inversion Ha; subst a. clear Ha.
    apply o_proj_inv in HZ. destruct HZ as (cs' & rows' & Eq & Hn & Hs & ->).
    inversion Eq; subst cs' rows'. clear Eq.
    destruct Hw as [_ Hf]. rewrite subsetb_incl in Hs.
    assert (Hcx : forall a, In a (pcols P) -> In a xs).
    { intros a Ha. specialize (Hs _ Ha). apply assign_cols_In in Hs. destruct Hs as [->|Hs]; [contradiction|exact Hs]. }
    rewrite o_proj_frame; [|exact Hn|apply subsetb_incl; exact Hcx].
    f_equal. f_equal. rewrite map_map2.
    apply list_eqb_eq in E. apply rids_length in E.
    rewrite <- (map2_const_l _ _ _ (proj_row xs (pcols P)) rows vs E).
    apply map2_ext_Forall with (P := fun r => length (snd r) = length xs) (Q := fun _ => True);
      [exact Hf|apply Forall_True|].
    intros a b Ha _. unfold proj_row. cbn [fst snd]. f_equal. apply map_ext_in. intros c0 Hc0.
    rewrite sel_assign by exact Ha.
    destruct (Nat.eqb c0 k) eqn:E0; [|reflexivity].
    apply Nat.eqb_eq in E0. subst. contradiction.
  - intros k0. rewrite !schema_pbuild. cbn [schema]. apply kP_lift. intros k' Hk'.
    inv_bind Hk'. inv_bind Ha. inv_bind Ha. rewrite Ha0. cbn [bind].
    destruct a0 as [xs| | |]; try discriminate. destruct a1; try discriminate.
    cbn [k_assign] in Ha. inversion Ha; subst a. clear Ha.
    apply k_proj_inv in Hk'. destruct Hk' as (cs & Eq & Hn & Hs & ->). inversion Eq; subst cs.
    simpl. rewrite Hn. replace (subsetb (pcols P) xs) with true; [reflexivity|].
    symmetry. rewrite subsetb_incl in *. intros a Ha. specialize (Hs _ Ha).
    apply assign_cols_In in Hs. destruct Hs as [->|Hs]; [contradiction|exact Hs].
Qed.

(* ------------------------------------------------------------------ *)
(** * S6: projection through a binary operation on two frames *)

Lemma bin_proj_comm : forall f c cs ra rb,
  wf (OFrame cs ra) -> wf (OFrame cs rb) -> rids ra = rids rb ->
  o_proj c (OFrame cs (map2 (fun x y => (fst x, map2 f (snd x) (snd y))) ra rb))
  = bind (o_proj c (OFrame cs ra))
      (fun A1 => bind (o_proj c (OFrame cs rb)) (fun B1 => o_bin f A1 B1)).
Proof.
  intros f c cs ra rb [_ Hfa] [_ Hfb] Hr. cbn [o_proj].
  destruct (nodupb c && subsetb c cs) eqn:E; [|reflexivity]. cbn [bind o_bin].
  apply andb_true_iff in E. destruct E as [_ Hs]. rewrite subsetb_incl in Hs.
  rewrite list_eqb_refl.
  rewrite (rids_map_fst _ _ (proj_row cs c) ra), (rids_map_fst _ _ (proj_row cs c) rb) by reflexivity.
  rewrite Hr, list_eqb_refl. cbn [andb]. f_equal. f_equal.
  rewrite map_map2, map2_map_l, map2_map_r.
  apply map2_ext_Forall with (P := fun r => length (snd r) = length cs)
                             (Q := fun r => length (snd r) = length cs); try assumption.
  intros a b Ha Hb. unfold proj_row. cbn [fst snd]. f_equal. rewrite map2_same.
  apply map_ext_in. intros c0 Hc0. apply sel_map2; auto.
Qed.

Lemma side_U_inv : forall orig new s, side_U orig new = Some s ->
  (s = None /\ new = orig) \/ (exists U, s = Some U /\ new = Proj orig U).
Proof.
  intros orig new s H. unfold side_U in H.
  destruct (expr_eqb new orig) eqn:E.
  - apply expr_eqb_eq in E. inversion H; subst. left. auto.
  - destruct new; try discriminate. destruct (expr_eqb new orig) eqn:E2; [|discriminate].
    apply expr_eqb_eq in E2. inversion H; subst. right. eauto.
Qed.

Lemma side_sem : forall rho a a' ca sa c ra,
  side_U a a' = Some sa -> side_chk ca c sa = true ->
  den rho a = Some (OFrame ca ra) -> wf (OFrame ca ra) ->
  exists ra', den rho a' = Some (OFrame (side_cols ca sa) ra')
              /\ wf (OFrame (side_cols ca sa) ra') /\ rids ra' = rids ra
              /\ o_proj c (OFrame (side_cols ca sa) ra') = o_proj c (OFrame ca ra).
Proof.
  intros rho a a' ca sa c ra Hs Hc Hd Hw.
  apply side_U_inv in Hs. destruct Hs as [[-> ->]|(U & -> & ->)].
  - exists ra. simpl. auto.
  - simpl in Hc. split_andb. exists (map (proj_row ca U) ra).
    assert (HY : o_proj U (OFrame ca ra) = Some (OFrame U (map (proj_row ca U) ra)))
      by (apply o_proj_frame; assumption).
    cbn [den side_cols]. rewrite Hd. cbn [bind]. split; [exact HY|].
    split; [eapply o_proj_wf; exact HY|]. split; [apply rids_map_fst; reflexivity|].
    eapply proj_proj_eq; eassumption.
Qed.

Lemma side_ksem : forall a a' ca sa c,
  side_U a a' = Some sa -> side_chk ca c sa = true ->
  schema a = Some (KFrame ca) -> schema a' = Some (KFrame (side_cols ca sa)).
Proof.
  intros a a' ca sa c Hs Hc Hk.
  apply side_U_inv in Hs. destruct Hs as [[-> ->]|(U & -> & ->)].
  - exact Hk.
  - simpl in Hc. split_andb. cbn [schema side_cols]. rewrite Hk. simpl.
    match goal with H1 : nodupb U = true, H2 : subsetb U ca = true |- _ => rewrite H1, H2 end.
    reflexivity.
Qed.

Lemma side_cols_sub : forall ca sa c, side_chk ca c sa = true -> subsetb c ca = true ->
  subsetb c (side_cols ca sa) = true.
Proof. intros ca [U|] c H H2; simpl in *; [split_andb; assumption|exact H2]. Qed.

Lemma pctx_eqb_eq : forall P P', pctx_eqb P P' = true -> P = P'.
Proof.
  intros [c|c] [c'|c'] H; simpl in H; try discriminate.
  - apply list_eqb_eq in H. subst. reflexivity.
  - apply Nat.eqb_eq in H. subst. reflexivity.
Qed.

Lemma s6_sound : forall p r, s6_ok p r = true -> refines p r /\ spres p r.
Proof.
  intros p r H. unfold s6_ok in H.
  destruct (pview p) as [[P inner]|] eqn:Ev; [|discriminate].
  destruct inner as [| | | | | | |o a b| | | | | | |]; try discriminate.
  destruct (pview r) as [[P' inner']|] eqn:Ev'; [|discriminate].
  destruct inner' as [| | | | | | |o' a' b'| | | | | | |]; try discriminate.
  apply pview_inv in Ev. apply pview_inv in Ev'. subst p r.
  apply andb_true_iff in H. destruct H as [H0 H]. apply andb_true_iff in H0. destruct H0 as [HP Ho].
  apply pctx_eqb_eq in HP. apply bop_eqb_eq in Ho. subst P' o'.
  destruct (schema a) as [[ca| | |]|] eqn:Esa; try discriminate.
  destruct (schema b) as [[cb| | |]|] eqn:Esb; try discriminate.
  destruct (side_U a a') as [sa|] eqn:Ua; try discriminate.
  destruct (side_U b b') as [sb|] eqn:Ub; try discriminate.
  apply andb_true_iff in H. destruct H as [H Heq]. apply andb_true_iff in H. destruct H as [H Hcb].
  apply andb_true_iff in H. destruct H as [_ Hca]. apply list_eqb_eq in Heq.
  split.
  - intros rho Z. rewrite !den_pbuild. cbn [den]. apply P_lift. clear Z. intros Z HZ.
    destruct (den rho a) as [A|] eqn:EA; [|discriminate].
    destruct (den rho b) as [B|] eqn:EB; [|discriminate].
    destruct (den_frame_cols _ _ _ _ Esa EA) as (ra & -> & Hwa).
    destruct (den_frame_cols _ _ _ _ Esb EB) as (rb & -> & Hwb).
    cbn [bind o_bin] in HZ.
    destruct (list_eqb ca cb && list_eqb (rids ra) (rids rb)) eqn:E; [|discriminate].
    apply andb_true_iff in E. destruct E as [E1 E2]. apply list_eqb_eq in E1, E2. subst cb.
    cbn [bind] in HZ. rewrite bin_proj_comm in HZ by assumption.
    destruct (side_sem _ _ _ _ _ _ _ Ua Hca EA Hwa) as (ra' & Da & Wa & Ra & Pa).
    destruct (side_sem _ _ _ _ _ _ _ Ub Hcb EB Hwb) as (rb' & Db & Wb & Rb & Pb).
    rewrite Da, Db. cbn [bind o_bin]. rewrite <- Heq in *. rewrite list_eqb_refl.
    replace (rids rb') with (rids ra') by congruence. rewrite list_eqb_refl. cbn [andb bind].
    rewrite bin_proj_comm; [|assumption|assumption|congruence].
    rewrite Pa, Pb. exact HZ.
  - intros k. rewrite !schema_pbuild. cbn [schema]. apply kP_lift. intros k' Hk'.
    rewrite (side_ksem _ _ _ _ _ Ua Hca Esa), (side_ksem _ _ _ _ _ Ub Hcb Esb).
    rewrite Esa, Esb in Hk'.
    cbn [bind k_bin] in *. rewrite <- Heq. rewrite list_eqb_refl.
    destruct (list_eqb ca cb) eqn:E; [|discriminate]. cbn [bind] in *.
    apply k_proj_inv in Hk'. destruct Hk' as (cs & Eq & Hn & Hs & ->). inversion Eq; subst cs.
    simpl. rewrite Hn, (side_cols_sub _ _ _ Hca Hs). reflexivity.
Qed.

(* ------------------------------------------------------------------ *)
(** * S10: squashing two filters *)

Definition restrict (m : list bool) (o : obj) : obj :=
  match o with
  | OFrame cs rows => OFrame cs (fmask m rows)
  | OSeries rows => OSeries (fmask m rows)
  | _ => o
  end.
Definition orids (o : obj) : option (list nat) :=
  match o with
  | OFrame _ rows => Some (rids rows)
  | OSeries rows => Some (rids rows)
  | _ => None
  end.

Lemma sim_proj : forall m c O' o, o_proj c (restrict m O') = Some o ->
  exists o', o_proj c O' = Some o' /\ o = restrict m o' /\ orids o' = orids O'.
Proof.
  intros m c [cs rows| | |] o H; simpl in H; try discriminate.
  destruct (nodupb c && subsetb c cs) eqn:E; [|discriminate]. inversion H; subst.
  exists (OFrame c (map (proj_row cs c) rows)). simpl. rewrite E.
  split; [reflexivity|]. split; [rewrite fmask_map; reflexivity|].
  f_equal. apply rids_map_fst. reflexivity.
Qed.

Lemma sim_projs : forall m c O' o, o_projs c (restrict m O') = Some o ->
  exists o', o_projs c O' = Some o' /\ o = restrict m o' /\ orids o' = orids O'.
Proof.
  intros m c [cs rows| | |] o H; simpl in H; try discriminate.
  destruct (memb c cs) eqn:E; [|discriminate]. inversion H; subst.
  eexists. simpl. rewrite E. split; [reflexivity|].
  split; [simpl; rewrite fmask_map; reflexivity|].
  simpl. f_equal. apply rids_map_fst. reflexivity.
Qed.

Lemma sim_map : forall m f O', o_map f (restrict m O') = restrict m (o_map f O')
                               /\ orids (o_map f O') = orids O'.
Proof.
  intros m f [cs rows|rows| |]; simpl; (split; [|try reflexivity]);
    try reflexivity; try (rewrite fmask_map; reflexivity);
    f_equal; apply rids_map_fst; reflexivity.
Qed.

Lemma sim_bin : forall m f r0 A' B' o, orids A' = Some r0 -> orids B' = Some r0 ->
  o_bin f (restrict m A') (restrict m B') = Some o ->
  exists o', o_bin f A' B' = Some o' /\ o = restrict m o' /\ orids o' = Some r0.
Proof.
  intros m f r0 [cs1 r1|r1| |] [cs2 r2|r2| |] o HA HB H; simpl in HA, HB; try discriminate;
    simpl in H; try discriminate; inversion HA as [HA']; inversion HB as [HB'].
  - destruct (list_eqb cs1 cs2) eqn:E; simpl in H; [|discriminate].
    destruct (list_eqb (rids (fmask m r1)) (rids (fmask m r2))); [|discriminate].
    inversion H; subst o. simpl. rewrite E, HA', HB', list_eqb_refl. simpl.
    eexists. split; [reflexivity|]. split; [simpl; rewrite fmask_map2; reflexivity|].
    simpl. f_equal. rewrite rids_map2_fst; [assumption|reflexivity|].
    apply rids_length. congruence.
  - destruct (list_eqb (rids (fmask m r1)) (rids (fmask m r2))); [|discriminate].
    inversion H; subst o. simpl. rewrite HA', HB', list_eqb_refl.
    eexists. split; [reflexivity|]. split; [simpl; rewrite fmask_map2; reflexivity|].
    simpl. f_equal. rewrite rids_map2_fst; [assumption|reflexivity|].
    apply rids_length. congruence.
Qed.

Lemma sim_assign : forall m k r0 A' V' o, orids A' = Some r0 -> orids V' = Some r0 ->
  o_assign k (restrict m A') (restrict m V') = Some o ->
  exists o', o_assign k A' V' = Some o' /\ o = restrict m o' /\ orids o' = Some r0.
Proof.
  intros m k r0 [cs r1| | |] [|r2| |] o HA HB H; simpl in HA, HB; try discriminate;
    simpl in H; try discriminate; inversion HA as [HA']; inversion HB as [HB'].
  destruct (list_eqb (rids (fmask m r1)) (rids (fmask m r2))); [|discriminate].
  inversion H; subst o. simpl. rewrite HA', HB', list_eqb_refl.
  eexists. split; [reflexivity|]. split; [simpl; rewrite fmask_map2; reflexivity|].
  simpl. f_equal. rewrite rids_map2_fst; [assumption|reflexivity|].
  apply rids_length. congruence.
Qed.

Lemma sim_rename : forall m mm O' o, o_rename mm (restrict m O') = Some o ->
  exists o', o_rename mm O' = Some o' /\ o = restrict m o' /\ orids o' = orids O'.
Proof.
  intros m mm [cs rows| | |] o H; simpl in H; try discriminate.
  destruct (nodupb (map (ren mm) cs)) eqn:E; [|discriminate]. inversion H; subst.
  eexists. simpl. rewrite E. split; [reflexivity|]. split; reflexivity.
Qed.

Lemma rowwise_unfold : forall t q,
  rowwise t q =
  if expr_eqb t q then true else
  match q with
  | Proj e _ | ProjS e _ | BinL _ e _ | BinR _ _ e | Un _ e | Fillna e _ | Rename e _ => rowwise t e
  | Bin _ a b => rowwise t a && rowwise t b
  | Assign e _ v => rowwise t e && rowwise t v
  | _ => false
  end.
Proof. intros t q. destruct q; reflexivity. Qed.

Section Rowwise.
  Variables (rho : env) (t x : expr) (m : list bool) (X : obj) (r0 : list nat).
  Hypothesis Hx : den rho x = Some X.
  Hypothesis Ht : den rho t = Some (restrict m X).
  Hypothesis Hr : orids X = Some r0.

  Lemma rowwise_sim : forall q, rowwise t q = true -> forall o, den rho q = Some o ->
    exists o', den rho (subst t x q) = Some o' /\ o = restrict m o' /\ orids o' = Some r0.
  Proof.
    induction q; intros Hrow o' H; rewrite subst_unfold; rewrite rowwise_unfold in Hrow;
      (destruct (expr_eqb t _) eqn:E;
       [apply expr_eqb_eq in E; subst t; rewrite Ht in H; inversion H; subst o';
        exists X; auto|]); try discriminate; cbn [den] in H |- *.
    - (* Proj *) inv_bind H. destruct (IHq Hrow _ Ha) as (a' & D & -> & R).
      rewrite D. cbn [bind]. destruct (sim_proj _ _ _ _ H) as (o'' & P1 & P2 & P3).
      exists o''. rewrite P3. auto.
    - (* ProjS *) inv_bind H. destruct (IHq Hrow _ Ha) as (a' & D & -> & R).
      rewrite D. cbn [bind]. destruct (sim_projs _ _ _ _ H) as (o'' & P1 & P2 & P3).
      exists o''. rewrite P3. auto.
    - (* BinL *) inv_bind H. destruct (IHq Hrow _ Ha) as (a' & D & -> & R).
      rewrite D. cbn [bind]. inversion H; subst o'. eexists. split; [reflexivity|].
      destruct (sim_map m (fun c : cell => bop_fun o c (Some z)) a') as [S1 S2].
      rewrite S2. auto.
    - (* BinR *) inv_bind H. destruct (IHq Hrow _ Ha) as (a' & D & -> & R).
      rewrite D. cbn [bind]. inversion H; subst o'. eexists. split; [reflexivity|].
      destruct (sim_map m (fun c : cell => bop_fun o (Some z) c) a') as [S1 S2].
      rewrite S2. auto.
    - (* Bin *) apply andb_true_iff in Hrow. destruct Hrow as [Hr1 Hr2].
      inv_bind H. inv_bind H.
      destruct (IHq1 Hr1 _ Ha) as (a' & D1 & -> & R1).
      destruct (IHq2 Hr2 _ Ha0) as (b' & D2 & -> & R2).
      rewrite D1, D2. cbn [bind]. eapply sim_bin; eauto.
    - (* Un *) inv_bind H. destruct (IHq Hrow _ Ha) as (a' & D & -> & R).
      rewrite D. cbn [bind]. inversion H; subst o'. eexists. split; [reflexivity|].
      destruct (sim_map m (uop_fun u) a') as [S1 S2]. rewrite S2. auto.
    - (* Fillna *) inv_bind H. destruct (IHq Hrow _ Ha) as (a' & D & -> & R).
      rewrite D. cbn [bind]. inversion H; subst o'. eexists. split; [reflexivity|].
      destruct (sim_map m (fillna_fun z) a') as [S1 S2]. rewrite S2. auto.
    - (* Assign *) apply andb_true_iff in Hrow. destruct Hrow as [Hr1 Hr2].
      inv_bind H. inv_bind H.
      destruct (IHq1 Hr1 _ Ha) as (a' & D1 & -> & R1).
      destruct (IHq2 Hr2 _ Ha0) as (b' & D2 & -> & R2).
      rewrite D1, D2. cbn [bind]. eapply sim_assign; eauto.
    - (* Rename *) inv_bind H. destruct (IHq Hrow _ Ha) as (a' & D & -> & R).
      rewrite D. cbn [bind]. destruct (sim_rename _ _ _ _ H) as (o'' & P1 & P2 & P3).
      exists o''. rewrite P3. auto.
  Qed.
End Rowwise.

Lemma o_filter_inv : forall X Pd T, o_filter X Pd = Some T ->
  exists ps, Pd = OSeries ps /\ orids X = Some (rids ps) /\ T = restrict (pmask ps) X.
Proof.
  intros [cs rows|rows| |] [|ps| |] T H; simpl in H; try discriminate;
    destruct (list_eqb (rids rows) (rids ps)) eqn:E; try discriminate;
    apply list_eqb_eq in E; inversion H; subst; exists ps; simpl; rewrite E; auto.
Qed.

Lemma o_filter_intro : forall X ps, orids X = Some (rids ps) ->
  o_filter X (OSeries ps) = Some (restrict (pmask ps) X).
Proof.
  intros [cs rows|rows| |] ps H; simpl in H; try discriminate; inversion H as [H'];
    simpl; rewrite H', list_eqb_refl; reflexivity.
Qed.

Lemma fmask_nil_r : forall A m, @fmask A m [] = [].
Proof. intros A [|b m]; reflexivity. Qed.

Lemma fmask_fmask : forall A m1 m2 (l : list A),
  fmask (fmask m1 m2) (fmask m1 l) = fmask (map2 andb m1 m2) l.
Proof.
  induction m1 as [|b m1 IH]; intros m2 l; [reflexivity|].
  destruct m2 as [|c m2]; [reflexivity|].
  destruct l as [|a l].
  - simpl. rewrite fmask_nil_r. reflexivity.
  - destruct b; simpl.
    + destruct c; rewrite IH; reflexivity.
    + apply IH.
Qed.

Lemma restrict_restrict : forall m1 m2 X,
  restrict (fmask m1 m2) (restrict m1 X) = restrict (map2 andb m1 m2) X.
Proof. intros m1 m2 [cs rows|rows| |]; simpl; try reflexivity; rewrite fmask_fmask; reflexivity. Qed.

Lemma truthy_bcell : forall b, truthy (bcell b) = b.
Proof. intros [|]; reflexivity. Qed.

Lemma s10_sound : forall p r, s10_ok p r = true -> refines p r /\ spres p r.
Proof.
  intros p0 r H. unfold s10_ok in H.
  destruct p0 as [| | | |t q| | | | | | | | | |]; try discriminate.
  destruct t as [| | | |x p| | | | | | | | | |]; try discriminate.
  apply andb_true_iff in H. destruct H as [H Hres]. apply andb_true_iff in H. destruct H as [_ Hrow].
  apply expr_eqb_eq in Hres. subst r. split.
  - intros rho Z HZ. cbn [den] in HZ.
    inv_bind HZ. rename a into T, Ha into HT. inv_bind HZ. rename a into Q, Ha into HQ.
    pose proof HT as HT'. inv_bind HT'. rename a into X, Ha into HX.
    inv_bind HT'. rename a into Pd, Ha into HP.
    apply o_filter_inv in HT'. destruct HT' as (ps & -> & RX & ->).
    destruct (rowwise_sim rho (Filter x p) x (pmask ps) X (rids ps) HX HT RX q Hrow _ HQ)
      as (Q' & DQ & -> & RQ).
    apply o_filter_inv in HZ. destruct HZ as (qs & EQ & RT & ->).
    destruct Q' as [|qs'| |]; try discriminate. simpl in EQ. inversion EQ; subst qs. clear EQ.
    simpl in RQ. inversion RQ as [RQ'].
    cbn [den]. rewrite HX, HP, DQ. cbn [bind o_bin]. rewrite RQ', list_eqb_refl. cbn [bind].
    assert (E1 : pmask (fmask (pmask ps) qs') = fmask (pmask ps) (pmask qs')).
    { unfold pmask. rewrite fmask_map. reflexivity. }
    assert (E2 : pmask (map2 (fun x0 y : nat * cell => (fst x0, bop_fun BAnd (snd x0) (snd y))) ps qs')
                 = map2 andb (pmask ps) (pmask qs')).
    { unfold pmask. rewrite map_map2, map2_map_l, map2_map_r.
      apply map2_ext_Forall with (P := fun _ => True) (Q := fun _ => True);
        try apply Forall_True.
      intros a b _ _. cbn [snd bop_fun]. apply truthy_bcell. }
    rewrite o_filter_intro.
    + rewrite E1, E2, restrict_restrict. reflexivity.
    + rewrite RX. f_equal. symmetry. apply rids_map2_fst; [reflexivity|].
      apply rids_length. congruence.
  - intros k Hk. cbn [schema] in Hk.
    assert (Hq : schema (subst (Filter x p) x q) = schema q).
    { apply schema_congruence. cbn [schema].
      destruct (schema x) as [kx|]; [|discriminate]. cbn [bind] in *.
      destruct (schema p) as [kp|]; [|discriminate]. cbn [bind] in *.
      destruct kx, kp; try discriminate; reflexivity. }
    cbn [schema]. rewrite Hq.
    destruct (schema x) as [kx|]; [|discriminate]. cbn [bind] in *.
    destruct (schema p) as [kp|]; [|discriminate]. cbn [bind] in *.
    destruct (schema q) as [kq|]; [|destruct (k_filter kx kp); discriminate].
    destruct kx, kp; try discriminate; cbn [k_filter bind] in *;
      destruct kq; try discriminate; exact Hk.
Qed.

(* ------------------------------------------------------------------ *)
(** * S13: length push-down *)

Definition lenref (e t : expr) : Prop :=
  (forall rho o, bind (den rho e) o_len = Some o -> bind (den rho t) o_len = Some o) /\
  (forall k, bind (schema e) k_len = Some k -> bind (schema t) k_len = Some k).

Lemma lenref_trans : forall a b c, lenref a b -> lenref b c -> lenref a c.
Proof. intros a b c [H1 H2] [H3 H4]. split; eauto. Qed.

Lemma reach_or : forall e x t (b : bool), lenref e x -> (b = true -> lenref x t) ->
  expr_eqb x t || b = true -> lenref e t.
Proof.
  intros e x t b Hex Hb H. apply orb_true_iff in H. destruct H as [H|H].
  - apply expr_eqb_eq in H. subst. exact Hex.
  - eapply lenref_trans; [exact Hex|auto].
Qed.

Lemma o_len_map : forall f X, o_len (o_map f X) = o_len X.
Proof. intros f [cs rows|rows| |]; simpl; try reflexivity; rewrite map_length; reflexivity. Qed.

Lemma o_len_proj : forall c X Y, o_proj c X = Some Y -> o_len Y = o_len X.
Proof.
  intros c X Y H. apply o_proj_inv in H. destruct H as (cs & rows & -> & _ & _ & ->).
  simpl. rewrite map_length. reflexivity.
Qed.
Lemma o_len_projs : forall c X Y, o_projs c X = Some Y -> o_len Y = o_len X.
Proof.
  intros c [cs rows| | |] Y H; simpl in H; try discriminate.
  destruct (memb c cs); [|discriminate]. inversion H; subst. simpl. rewrite map_length. reflexivity.
Qed.
Lemma o_len_assign : forall k X V Y, o_assign k X V = Some Y -> o_len Y = o_len X.
Proof.
  intros k [cs rows| | |] [|vs| |] Y H; simpl in H; try discriminate.
  destruct (list_eqb (rids rows) (rids vs)) eqn:E; [|discriminate]. inversion H; subst.
  apply list_eqb_eq in E. apply rids_length in E. simpl. rewrite map2_length by exact E. reflexivity.
Qed.
Lemma o_len_rename : forall m X Y, o_rename m X = Some Y -> o_len Y = o_len X.
Proof.
  intros m [cs rows| | |] Y H; simpl in H; try discriminate.
  destruct (nodupb (map (ren m) cs)); [|discriminate]. inversion H; subst. reflexivity.
Qed.
Lemma o_len_bin : forall f X Y Z, o_bin f X Y = Some Z -> is_coll (Some (kind_of X)) = true ->
  o_len Z = o_len X.
Proof.
  intros f [cs1 r1|r1|c1|] [cs2 r2|r2|c2|] Z H Hc; simpl in Hc; try discriminate;
    simpl in H; try discriminate.
  - destruct (list_eqb cs1 cs2 && list_eqb (rids r1) (rids r2)) eqn:E; [|discriminate].
    apply andb_true_iff in E. destruct E as [_ E]. apply list_eqb_eq in E. apply rids_length in E.
    inversion H; subst. simpl. rewrite map2_length by exact E. reflexivity.
  - inversion H; subst. simpl. rewrite map_length. reflexivity.
  - destruct (list_eqb (rids r1) (rids r2)) eqn:E; [|discriminate].
    apply list_eqb_eq in E. apply rids_length in E.
    inversion H; subst. simpl. rewrite map2_length by exact E. reflexivity.
  - inversion H; subst. simpl. rewrite map_length. reflexivity.
Qed.

Ltac lenref_unary lem :=
  split;
  [ let rho := fresh "rho" in let ov := fresh "ov" in
    intros rho ov H; cbn [den] in H;
    apply bind_Some in H; destruct H as (Y & HY & H);
    apply bind_Some in HY; destruct HY as (X & HX & HY);
    rewrite HX; cbn [bind];
    first [ erewrite <- lem by exact HY; exact H
          | inversion HY; subst Y; rewrite o_len_map in H; exact H ]
  | ].

Lemma lenref_Proj : forall x cs, lenref (Proj x cs) x.
Proof.
  intros x cs. lenref_unary o_len_proj.
  intros k H. cbn [schema] in H. destruct (schema x) as [[xs| | |]|]; try discriminate.
  cbn [bind k_proj] in H. destruct (nodupb cs && subsetb cs xs); [|discriminate]. exact H.
Qed.
Lemma lenref_ProjS : forall x c, lenref (ProjS x c) x.
Proof.
  intros x c. lenref_unary o_len_projs.
  intros k H. cbn [schema] in H. destruct (schema x) as [[xs| | |]|]; try discriminate.
  cbn [bind k_projs] in H. destruct (memb c xs); [|discriminate]. exact H.
Qed.
Lemma lenref_BinL : forall o x z, lenref (BinL o x z) x.
Proof. intros o x z. lenref_unary o_len_proj. intros k H. exact H. Qed.
Lemma lenref_BinR : forall o z x, lenref (BinR o z x) x.
Proof. intros o z x. lenref_unary o_len_proj. intros k H. exact H. Qed.
Lemma lenref_Un : forall u x, lenref (Un u x) x.
Proof. intros u x. lenref_unary o_len_proj. intros k H. exact H. Qed.
Lemma lenref_Fillna : forall x z, lenref (Fillna x z) x.
Proof. intros x z. lenref_unary o_len_proj. intros k H. exact H. Qed.
Lemma lenref_Rename : forall x m, lenref (Rename x m) x.
Proof.
  intros x m. lenref_unary o_len_rename.
  intros k H. cbn [schema] in H. destruct (schema x) as [[xs| | |]|]; try discriminate.
  cbn [bind k_rename] in H. destruct (nodupb (map (ren m) xs)); [|discriminate]. exact H.
Qed.
Lemma lenref_Assign : forall x k v, lenref (Assign x k v) x.
Proof.
  intros x k v. split.
  - intros rho o H. cbn [den] in H. inv_bind H. inv_bind Ha. inv_bind Ha.
    rewrite Ha0. cbn [bind]. erewrite <- o_len_assign by eassumption. exact H.
  - intros k0 H. cbn [schema] in H.
    destruct (schema x) as [[xs| | |]|]; cbn [bind] in *; try discriminate;
      destruct (schema v) as [[| | |]|]; simpl in H; try discriminate; exact H.
Qed.
Lemma lenref_Bin : forall o x y, is_coll (schema x) = true -> lenref (Bin o x y) x.
Proof.
  intros o x y Hc. split.
  - intros rho o' H. cbn [den] in H. inv_bind H. inv_bind Ha. inv_bind Ha.
    rewrite Ha0. cbn [bind]. erewrite <- o_len_bin; [exact H|exact Ha|].
    rewrite <- (schema_sound _ _ _ Ha0). exact Hc.
  - intros k H. cbn [schema] in H. destruct (schema x) as [[xs| | |]|]; try discriminate;
      cbn [bind] in *; destruct (schema y) as [[ys| | |]|]; try discriminate;
      cbn [k_bin bind k_len] in *; try exact H.
    destruct (list_eqb xs ys); [exact H|discriminate].
Qed.

Lemma len_reach_sound : forall t e, len_reach t e = true -> lenref e t.
Proof.
  intros t. induction e; intros H; cbn [len_reach] in H; try discriminate.
  - eapply reach_or; [apply lenref_Proj|exact IHe|exact H].
  - eapply reach_or; [apply lenref_ProjS|exact IHe|exact H].
  - eapply reach_or; [apply lenref_BinL|exact IHe|exact H].
  - eapply reach_or; [apply lenref_BinR|exact IHe|exact H].
  - apply andb_true_iff in H. destruct H as [Hc H].
    eapply reach_or; [apply lenref_Bin; exact Hc|exact IHe1|exact H].
  - eapply reach_or; [apply lenref_Un|exact IHe|exact H].
  - eapply reach_or; [apply lenref_Fillna|exact IHe|exact H].
  - eapply reach_or; [apply lenref_Assign|exact IHe1|exact H].
  - eapply reach_or; [apply lenref_Rename|exact IHe|exact H].
Qed.

Lemma s13_sound : forall p r, s13_ok p r = true -> refines p r /\ spres p r.
Proof.
  intros p r H. unfold s13_ok in H. destruct p; try discriminate. destruct r; try discriminate.
  apply len_reach_sound in H. destruct H as [H1 H2]. split.
  - intros rho o. cbn [den]. apply H1.
  - intros k. cbn [schema]. apply H2.
Qed.

(* ------------------------------------------------------------------ *)
(** * Main theorems *)

Lemma rule_ok_both : forall p r, rule_ok p r = true -> refines p r /\ spres p r.
Proof.
  intros p r H. unfold rule_ok, rule_name in H.
  destruct (s1_ok p r) eqn:E1; [apply s1_sound; exact E1|].
  destruct (s2_ok p r) eqn:E2; [apply s2_sound; exact E2|].
  destruct (push_rule p r) eqn:E3.
  - destruct (s6_ok p r) eqn:E6; [apply s6_sound; exact E6|].
    destruct (s7a_ok p r) eqn:E7; [apply s7a_sound; exact E7|].
    destruct (s9_ok p r) eqn:E9; [apply s9_sound; exact E9|].
    destruct (s10_ok p r) eqn:E10; [apply s10_sound; exact E10|].
    destruct (s13_ok p r) eqn:E13; [apply s13_sound; exact E13|].
    discriminate.
  - apply push_sound. congruence.
Qed.

Theorem rule_ok_sound : forall parent result, rule_ok parent result = true ->
  forall rho o, den rho parent = Some o -> den rho result = Some o.
Proof. intros p r H. apply (rule_ok_both p r H). Qed.

Theorem rule_ok_schema : forall parent result, rule_ok parent result = true ->
  forall k, schema parent = Some k -> schema result = Some k.
Proof. intros p r H. apply (rule_ok_both p r H). Qed.

Theorem step_in_context_sound : forall a b, rule_ok a b = true ->
  forall rho e o, den rho e = Some o -> den rho (subst a b e) = Some o.
Proof.
  intros a b H rho e o. apply subst_refines. intros rho' o'. apply rule_ok_sound. exact H.
Qed.

(* the static schema is preserved by a step applied anywhere inside a plan as well *)
Theorem step_in_context_schema : forall a b, rule_ok a b = true ->
  forall e k, schema e = Some k -> schema (subst a b e) = Some k.
Proof.
  intros a b H. pose proof (rule_ok_schema a b H) as Hab.
  induction e; intros k0 Hk; rewrite subst_unfold;
    (destruct (expr_eqb a _) eqn:E; [apply expr_eqb_eq in E; subst a; apply Hab; exact Hk|]);
    try exact Hk; cbn [schema] in Hk |- *;
    try (apply IHe; exact Hk).
  - inv_bind Hk. rewrite (IHe _ Ha). exact Hk.
  - inv_bind Hk. rewrite (IHe _ Ha). exact Hk.
  - inv_bind Hk. inv_bind Hk. rewrite (IHe1 _ Ha), (IHe2 _ Ha0). exact Hk.
  - inv_bind Hk. inv_bind Hk. rewrite (IHe1 _ Ha), (IHe2 _ Ha0). exact Hk.
  - inv_bind Hk. inv_bind Hk. rewrite (IHe1 _ Ha), (IHe2 _ Ha0). exact Hk.
  - inv_bind Hk. rewrite (IHe _ Ha). exact Hk.
  - inv_bind Hk. rewrite (IHe _ Ha). exact Hk.
  - inv_bind Hk. rewrite (IHe _ Ha). exact Hk.
  - inv_bind Hk. rewrite (IHe _ Ha). exact Hk.
Qed.

(* ------------------------------------------------------------------ *)
(** * Non-vacuity examples and refutations *)

Definition zc (x : Z) : cell := Some x.
Definition rho0 : env := fun id =>
  match id with
  | 0 => Some ([0; 1; 2],
               [(0, [zc 1; None; zc 3]); (1, [zc 4; zc 5; None]); (2, [zc (-7); zc 8; zc 9])])
  | 1 => Some ([0], [(0, [zc 10]); (1, [zc 5]); (2, [zc 3]); (3, [None])])
  | _ => None
  end.
Definition T0 := Src 0 [0; 1; 2].

(* an accepted step of schema n whose two sides evaluate to the same defined value *)
Definition accepted (n : nat) (p r : expr) : Prop :=
  rule_name p r = n /\ rule_ok p r = true /\
  exists v, den rho0 p = Some v /\ den rho0 r = Some v.
Ltac accept := split; [vm_compute; reflexivity|split; [vm_compute; reflexivity|
                 eexists; split; vm_compute; reflexivity]].

Example ex_s1 : accepted 1 (Proj (Proj T0 [0; 1]) [1]) (Proj T0 [1]).
Proof. accept. Qed.
Example ex_s1_value :
  den rho0 (Proj T0 [1]) = Some (OFrame [1] [(0, [None]); (1, [Some 5%Z]); (2, [Some 8%Z])]).
Proof. vm_compute. reflexivity. Qed.
Example ex_s1_series : accepted 1 (ProjS (Proj T0 [0; 1]) 1) (ProjS T0 1).
Proof. accept. Qed.
Example ex_s2 : accepted 2 (Proj (Fillna T0 0) [0; 1; 2]) (Fillna T0 0).
Proof. accept. Qed.
Example ex_s4 : accepted 4 (Proj (BinL BAdd T0 1) [1]) (Proj (BinL BAdd (Proj T0 [1; 2]) 1) [1]).
Proof. accept. Qed.
Example ex_s4_bare : accepted 4 (Proj (BinR BSub 1 T0) [1]) (BinR BSub 1 (Proj T0 [1])).
Proof. accept. Qed.
Example ex_s4_series : accepted 4 (ProjS (Un UIsNa T0) 1) (ProjS (Un UIsNa (Proj T0 [1])) 1).
Proof. accept. Qed.
Example ex_s4_series_bare : accepted 4 (ProjS (BinL BAdd T0 1) 1) (BinL BAdd (ProjS T0 1) 1).
Proof. accept. Qed.
Example ex_s5_series_bare : accepted 5 (ProjS (Filter T0 (BinL BGt (ProjS T0 0) 0)) 1)
                                       (Filter (ProjS T0 1) (BinL BGt (ProjS T0 0) 0)).
Proof. accept. Qed.
Example ex_s4_fillna : accepted 4 (Proj (Fillna T0 0) [2; 1]) (Proj (Fillna (Proj T0 [1; 2]) 0) [2; 1]).
Proof. accept. Qed.
Definition pr0 := BinL BGt (ProjS T0 0) 0.
Example ex_s5 : accepted 5 (Proj (Filter T0 pr0) [1]) (Proj (Filter (Proj T0 [1; 2]) pr0) [1]).
Proof. accept. Qed.
Example ex_s5_bare : accepted 5 (Proj (Filter T0 pr0) [1]) (Filter (Proj T0 [1]) pr0).
Proof. accept. Qed.
Example ex_s5_series : accepted 5 (ProjS (Filter T0 pr0) 1) (ProjS (Filter (Proj T0 [1]) pr0) 1).
Proof. accept. Qed.
Example ex_s6 : accepted 6 (Proj (Bin BAdd T0 (Fillna T0 0)) [1])
                           (Proj (Bin BAdd (Proj T0 [1]) (Proj (Fillna T0 0) [1])) [1]).
Proof. accept. Qed.
Example ex_s6_series : accepted 6 (ProjS (Bin BLt T0 (Fillna T0 0)) 2)
                                  (ProjS (Bin BLt (Proj T0 [2]) (Proj (Fillna T0 0) [2])) 2).
Proof. accept. Qed.
Definition v0 := BinL BMul (ProjS T0 1) 2.
Example ex_s7a : accepted 7 (Proj (Assign T0 5 v0) [0; 1]) (Proj T0 [0; 1]).
Proof. accept. Qed.
Example ex_s7b : accepted 7 (Proj (Assign T0 5 v0) [5; 1]) (Proj (Assign (Proj T0 [1]) 5 v0) [5; 1]).
Proof. accept. Qed.
Example ex_s7b_inplace :
  accepted 7 (Proj (Assign T0 1 v0) [1; 2]) (Proj (Assign (Proj T0 [2]) 1 v0) [1; 2]).
Proof. accept. Qed.
Example ex_s8 : accepted 8 (Proj (Rename T0 [(0, 7)]) [7; 2])
                           (Proj (Rename (Proj T0 [0; 2]) [(0, 7)]) [7; 2]).
Proof. accept. Qed.
Example ex_s9 : accepted 9 (Proj T0 [2; 0]) (Src 0 [2; 0]).
Proof. accept. Qed.
Example ex_s9_series : accepted 9 (ProjS T0 1) (SrcS 0 1).
Proof. accept. Qed.
Example ex_s9_partial : accepted 9 (Proj T0 [2]) (Proj (Src 0 [1; 2]) [2]).
Proof. accept. Qed.
Definition p1 := Un UNotNull (ProjS T0 1).
Definition q1 := BinL BGt (ProjS (Filter T0 p1) 0) 0.
Example ex_s10 : accepted 10 (Filter (Filter T0 p1) q1)
                             (Filter T0 (Bin BAnd p1 (BinL BGt (ProjS T0 0) 0))).
Proof. accept. Qed.
Example ex_s10_value :
  den rho0 (Filter (Filter T0 p1) q1) = Some (OFrame [0; 1; 2] [(1, [zc 4; zc 5; None])]).
Proof. vm_compute. reflexivity. Qed.
Example ex_s13 : accepted 13 (RLen (Proj (Filter T0 pr0) [1])) (RLen (Filter T0 pr0)).
Proof. accept. Qed.
Example ex_s13_value : den rho0 (RLen (Filter T0 pr0)) = Some (OScalar (zc 2)).
Proof. vm_compute. reflexivity. Qed.
Example ex_s13_series : accepted 13 (RLen (BinL BAdd (ProjS T0 1) 1)) (RLen (ProjS T0 1)).
Proof. accept. Qed.
Example ex_s13_assign : accepted 13 (RLen (Assign T0 5 v0)) (RLen T0).
Proof. accept. Qed.
Example ex_s13_bin : accepted 13 (RLen (Bin BAdd (ProjS T0 0) (ProjS T0 1))) (RLen (ProjS T0 0)).
Proof. accept. Qed.
Example ex_s13_multi : accepted 13 (RLen (Un UIsNa (Fillna (Rename (Proj T0 [0; 1]) [(0, 7)]) 0))) (RLen T0).
Proof. accept. Qed.
(* filters are not length preserving *)
Example reject_len_through_filter : rule_ok (RLen (Filter T0 pr0)) (RLen T0) = false
  /\ den rho0 (RLen (Filter T0 pr0)) = Some (OScalar (zc 2))
  /\ den rho0 (RLen T0) = Some (OScalar (zc 3)).
Proof. vm_compute. repeat split; reflexivity. Qed.
Example reject_len_through_filter_deep :
  rule_ok (RLen (Proj (Filter T0 pr0) [1])) (RLen T0) = false.
Proof. vm_compute. reflexivity. Qed.
(* a broadcast scalar on the left of Bin has no length: not accepted *)
Example reject_len_bin_scalar_left :
  rule_ok (RLen (Bin BAdd (RSum (ProjS T0 0)) (ProjS T0 1))) (RLen (RSum (ProjS T0 0))) = false.
Proof. vm_compute. reflexivity. Qed.
(* a step used inside a bigger plan *)
Example ex_in_context :
  let a := Proj (Fillna T0 0) [1] in let b := Fillna (Proj T0 [1]) 0 in
  let e := RSum (ProjS (Bin BAdd a a) 1) in
  rule_ok a b = true /\ subst a b e = RSum (ProjS (Bin BAdd b b) 1)
  /\ den rho0 e = Some (OScalar (Some 26%Z)) /\ den rho0 (subst a b e) = den rho0 e.
Proof. vm_compute. repeat split; reflexivity. Qed.

(* S10 needs its side conditions.  (1) A reduction in the outer predicate: the sum is taken over the
   filtered rows in the parent but over all rows after squashing. *)
Definition X1 := Src 1 [0].
Definition P1 := BinL BLt (ProjS X1 0) 8.
Definition Q1 := Bin BGe (BinL BMul (ProjS (Filter X1 P1) 0) 2) (RSum (ProjS (Filter X1 P1) 0)).
Example squash_with_reduction_refuted :
  let parent := Filter (Filter X1 P1) Q1 in
  let squashed := Filter X1 (Bin BAnd P1 (subst (Filter X1 P1) X1 Q1)) in
  den rho0 parent = Some (OFrame [0] [(1, [Some 5%Z])])
  /\ den rho0 squashed = Some (OFrame [0] [])
  /\ reduction_free (Filter X1 P1) Q1 = false
  /\ rule_ok parent squashed = false.
Proof. vm_compute. repeat split; reflexivity. Qed.

(* (2) [reduction_free] alone is NOT enough in this model (operands of Bin must have identical
   row-id lists): if the outer predicate also reads the rows through a structurally different but
   equivalent filter, the parent is well defined while the squashed plan is ill-formed.  Hence
   [rule_ok] additionally requires [rowwise (Filter x p) q]: every leaf of q is exactly Filter x p. *)
Definition P2 := BinR BGt 8 (ProjS X1 0).
Definition Q2 := Bin BAnd (BinL BGt (ProjS (Filter X1 P1) 0) 3) (BinL BGt (ProjS (Filter X1 P2) 0) 0).
Example squash_mixed_leaves_refuted :
  let parent := Filter (Filter X1 P1) Q2 in
  let squashed := Filter X1 (Bin BAnd P1 (subst (Filter X1 P1) X1 Q2)) in
  reduction_free (Filter X1 P1) Q2 = true
  /\ den rho0 parent = Some (OFrame [0] [(1, [Some 5%Z])])
  /\ den rho0 squashed = None
  /\ rowwise (Filter X1 P1) Q2 = false
  /\ rule_ok parent squashed = false.
Proof. vm_compute. repeat split; reflexivity. Qed.

(* unsound or out-of-scope steps are rejected *)
Example reject_assign_drop_of_used_key : rule_ok (Proj (Assign T0 5 v0) [5]) (Proj T0 [5]) = false.
Proof. vm_compute. reflexivity. Qed.
Example reject_push_missing_column :
  rule_ok (Proj (BinL BAdd T0 1) [1; 2]) (Proj (BinL BAdd (Proj T0 [1]) 1) [1; 2]) = false.
Proof. vm_compute. reflexivity. Qed.
Example reject_predicate_change (* S11 is not covered here *) :
  rule_ok (Filter T0 (Bin BOr pr0 pr0)) (Filter T0 pr0) = false.
Proof. vm_compute. reflexivity. Qed.
Example reject_filter_through_elemwise (* S12 *) :
  rule_ok (Filter (Un UAbs T0) pr0) (Un UAbs (Filter T0 pr0)) = false.
Proof. vm_compute. reflexivity. Qed.
Example reject_rename_missing_preimage :
  rule_ok (Proj (Rename T0 [(0, 7)]) [7; 2]) (Proj (Rename (Proj T0 [2]) [(0, 7)]) [7; 2]) = false.
Proof. vm_compute. reflexivity. Qed.

Print Assumptions rule_ok_sound.
Print Assumptions rule_ok_schema.
Print Assumptions den_congruence.
Print Assumptions step_in_context_sound.
Print Assumptions step_in_context_schema.
Print Assumptions schema_sound.
