(* ShuffleProofs.v -- every shuffle layer of Shuffle.v routes every row exactly once. *)
From DX Require Import Base Shuffle.
From Coq Require Import Permutation.

(* the model declares `payload` as a section variable: make it implicit for the statements below *)
Arguments target {payload} r.
Arguments routed {payload} Ps p.
Arguments piece {payload} g part key.
Arguments exec_stage {payload} sl prev.
Arguments exec_stages {payload} sts prev.
Arguments exec_regroup {payload} rg parts.
Arguments exec_shuffle {payload} L Ps.
Arguments disk_collect {payload} sigma Ps sel p.
Arguments exec_disk {payload} sigma Ps sel.

#[local] Arguments Nat.div : simpl never.
#[local] Arguments Nat.modulo : simpl never.
#[local] Arguments Nat.pow : simpl never.

(* ---------------------------------------------------------------------------------------- *)
(* generic list lemmas *)

Lemma opt_all_map {A B} (F : A -> option B) (G : A -> B) l :
  (forall x, In x l -> F x = Some (G x)) -> opt_all (map F l) = Some (map G l).
Proof.
  induction l as [|a l IH]; intros H; [reflexivity|].
  cbn [map opt_all]. rewrite (H a (or_introl eq_refl)), IH; [reflexivity|].
  intros x Hx; apply H; right; exact Hx.
Qed.

Lemma opt_concat_map {A C} (F : A -> option (list C)) (G : A -> list C) l :
  (forall x, In x l -> F x = Some (G x)) -> opt_concat (map F l) = Some (flat_map G l).
Proof.
  induction l as [|a l IH]; intros H; [reflexivity|].
  cbn [map opt_concat flat_map]. rewrite (H a (or_introl eq_refl)), IH; [reflexivity|].
  intros x Hx; apply H; right; exact Hx.
Qed.

Lemma lookup_map {B} (mk : nat -> B) l x :
  In x l -> lookup x (map (fun i => (i, mk i)) l) = Some (mk x).
Proof.
  induction l as [|a l IH]; intros H; [inversion H|].
  cbn [map lookup]. destruct (x =? a) eqn:E.
  - apply Nat.eqb_eq in E. subst. reflexivity.
  - apply Nat.eqb_neq in E. destruct H as [H|H]; [congruence|auto].
Qed.

Lemma filter_flat_map {A B} (f : B -> bool) (g : A -> list B) l :
  filter f (flat_map g l) = flat_map (fun x => filter f (g x)) l.
Proof.
  induction l as [|a l IH]; [reflexivity|].
  cbn [flat_map]. rewrite filter_app, IH. reflexivity.
Qed.

Lemma filter_filter' {A} (f g : A -> bool) l :
  filter f (filter g l) = filter (fun x => g x && f x)%bool l.
Proof.
  induction l as [|a l IH]; [reflexivity|].
  cbn [filter]. destruct (g a); cbn [filter andb]; [destruct (f a)|]; rewrite IH; reflexivity.
Qed.

Lemma filter_false {A} (f : A -> bool) l : (forall x, f x = false) -> filter f l = [].
Proof.
  intros H. induction l as [|a l IH]; [reflexivity|]. cbn [filter]. rewrite H. exact IH.
Qed.

Lemma filter_true {A} (f : A -> bool) l : (forall x, In x l -> f x = true) -> filter f l = l.
Proof.
  induction l as [|a l IH]; intros H; [reflexivity|]. cbn [filter].
  rewrite (H a (or_introl eq_refl)), IH; [reflexivity|]. intros; apply H; right; assumption.
Qed.

Lemma Permutation_filter' {A} (f : A -> bool) l l' :
  Permutation l l' -> Permutation (filter f l) (filter f l').
Proof.
  induction 1; cbn [filter].
  - constructor.
  - destruct (f x); [constructor|]; assumption.
  - destruct (f x), (f y); try apply Permutation_refl. apply perm_swap.
  - eapply perm_trans; eassumption.
Qed.

Lemma flat_map_nil {A B} (f : A -> list B) l : (forall x, In x l -> f x = []) -> flat_map f l = [].
Proof.
  induction l as [|a l IH]; intros H; [reflexivity|].
  cbn [flat_map]. rewrite (H a (or_introl eq_refl)), IH; [reflexivity|].
  intros; apply H; right; assumption.
Qed.

Lemma flat_map_ext_in {A B} (f g : A -> list B) l :
  (forall x, In x l -> f x = g x) -> flat_map f l = flat_map g l.
Proof.
  induction l as [|a l IH]; intros H; [reflexivity|].
  cbn [flat_map]. rewrite (H a (or_introl eq_refl)), IH; [reflexivity|].
  intros; apply H; right; assumption.
Qed.

Lemma flat_map_single {B} (f : nat -> list B) n c :
  c < n -> (forall i, i < n -> i <> c -> f i = []) -> flat_map f (seq 0 n) = f c.
Proof.
  induction n as [|n IH]; intros Hc H; [lia|].
  rewrite seq_S, flat_map_app. cbn [flat_map plus]. rewrite app_nil_r.
  destruct (Nat.eq_dec c n) as [->|Hne].
  - rewrite flat_map_nil; [reflexivity|]. intros x Hx. apply in_seq in Hx. apply H; lia.
  - rewrite IH; [|lia|intros; apply H; lia]. rewrite (H n) by lia. apply app_nil_r.
Qed.

Lemma flat_map_app_perm {A B} (f g : A -> list B) l :
  Permutation (flat_map (fun x => f x ++ g x) l) (flat_map f l ++ flat_map g l).
Proof.
  induction l as [|a l IH]; cbn [flat_map]; [constructor|].
  rewrite IH. rewrite <- !app_assoc. apply Permutation_app_head.
  rewrite !app_assoc. apply Permutation_app_tail. apply Permutation_app_comm.
Qed.

Lemma flat_map_swap {A B C} (f : A -> B -> list C) l1 l2 :
  Permutation (flat_map (fun i => flat_map (f i) l2) l1)
              (flat_map (fun q => flat_map (fun i => f i q) l1) l2).
Proof.
  induction l1 as [|a l1 IH]; cbn [flat_map].
  - rewrite flat_map_nil; auto.
  - rewrite IH. symmetry.
    apply (flat_map_app_perm (f a) (fun q => flat_map (fun i => f i q) l1)).
Qed.

Lemma Permutation_flat_map_pw {A B} (f g : A -> list B) l :
  (forall x, In x l -> Permutation (f x) (g x)) -> Permutation (flat_map f l) (flat_map g l).
Proof.
  induction l as [|a l IH]; intros H; cbn [flat_map]; [constructor|].
  apply Permutation_app; [apply H; left; reflexivity|apply IH; intros; apply H; right; assumption].
Qed.

Lemma Permutation_flat_map_list {A B} (f : A -> list B) l l' :
  Permutation l l' -> Permutation (flat_map f l) (flat_map f l').
Proof.
  induction 1; cbn [flat_map].
  - constructor.
  - apply Permutation_app_head; assumption.
  - rewrite !app_assoc. apply Permutation_app_tail, Permutation_app_comm.
  - eapply perm_trans; eassumption.
Qed.

Lemma nth_map_default {A B} (f : A -> B) l i d d' :
  i < length l -> nth i (map f l) d' = f (nth i l d).
Proof.
  intros H. rewrite (nth_indep _ d' (f d)) by (rewrite map_length; exact H). apply map_nth.
Qed.

Lemma flat_map_nth_seq {A} (Ps : list (list A)) n :
  length Ps <= n -> flat_map (fun q => nth q Ps []) (seq 0 n) = concat Ps.
Proof.
  intros H. replace n with (length Ps + (n - length Ps)) by lia.
  rewrite seq_app, flat_map_app. cbn [plus].
  rewrite (flat_map_nil _ (seq (length Ps) _)).
  - rewrite app_nil_r, flat_map_concat_map, map_nth_seq. reflexivity.
  - intros x Hx. apply in_seq in Hx. apply nth_overflow. lia.
Qed.

Lemma concat_perm_nth {A} (l1 l2 : list (list A)) :
  length l1 = length l2 ->
  (forall i, i < length l1 -> Permutation (nth i l1 []) (nth i l2 [])) ->
  Permutation (concat l1) (concat l2).
Proof.
  revert l2. induction l1 as [|a l1 IH]; intros [|b l2] Hl H; cbn [length] in *; try discriminate.
  - constructor.
  - cbn [concat]. apply Permutation_app.
    + apply (H 0). lia.
    + apply IH; [lia|]. intros i Hi. apply (H (S i)). lia.
Qed.

Lemma split_by_class {A} (c : A -> nat) n (L : list A) :
  (forall r, In r L -> c r < n) ->
  Permutation (flat_map (fun p => filter (fun r => c r =? p) L) (seq 0 n)) L.
Proof.
  induction L as [|r L IH]; intros H.
  - rewrite flat_map_nil; auto.
  - rewrite (flat_map_ext_in _ (fun p => (if c r =? p then [r] else []) ++ filter (fun r0 => c r0 =? p) L)).
    2:{ intros p _. cbn [filter]. destruct (c r =? p); reflexivity. }
    rewrite flat_map_app_perm.
    rewrite (flat_map_single _ n (c r)).
    + rewrite Nat.eqb_refl. cbn [app]. constructor. apply IH. intros; apply H; right; assumption.
    + apply H; left; reflexivity.
    + intros i _ Hne. destruct (c r =? i) eqn:E; [|reflexivity]. apply Nat.eqb_eq in E. congruence.
Qed.

(* ---------------------------------------------------------------------------------------- *)
(* base-k digit arithmetic *)

Definition place (k s q t : nat) : nat := t mod k ^ s + (q / k ^ s) * k ^ s.

Lemma digit_lt n s k : k <> 0 -> digit n s k < k.
Proof. intros. unfold digit. apply Nat.mod_upper_bound. assumption. Qed.

Lemma decomp k s n : k <> 0 ->
  n = n mod k ^ s + digit n s k * k ^ s + n / (k ^ s * k) * (k ^ s * k).
Proof.
  intros Hk. unfold digit. set (B := k ^ s).
  assert (HB : B <> 0) by (apply Nat.pow_nonzero; exact Hk).
  rewrite <- (Nat.div_div n B k) by assumption.
  pose proof (Nat.div_mod n B HB) as H1. pose proof (Nat.div_mod (n / B) k Hk) as H2.
  set (c := n / B) in *. set (a := n mod B) in *. set (d := c mod k) in *. set (h := c / k) in *.
  clearbody d h a. clearbody c. rewrite H1, H2. ring.
Qed.

Lemma compose_inj B k a d h a' d' h' : a < B -> a' < B -> d < k -> d' < k ->
  a + d * B + h * (B * k) = a' + d' * B + h' * (B * k) -> a = a' /\ d = d' /\ h = h'.
Proof.
  intros Ha Ha' Hd Hd' E.
  assert (E1 : B * (k * h + d) + a = B * (k * h' + d') + a') by nia.
  destruct (Nat.div_mod_unique B _ _ _ _ Ha Ha' E1) as [E2 E3].
  destruct (Nat.div_mod_unique k _ _ _ _ Hd Hd' E2) as [E4 E5]. auto.
Qed.

Lemma place_s k s q t : k <> 0 ->
  place k s q t = t mod k ^ s + digit q s k * k ^ s + q / (k ^ s * k) * (k ^ s * k).
Proof.
  intros Hk. unfold place, digit. set (B := k ^ s).
  assert (HB : B <> 0) by (apply Nat.pow_nonzero; exact Hk).
  rewrite <- (Nat.div_div q B k) by assumption.
  pose proof (Nat.div_mod (q / B) k Hk) as H2.
  set (c := q / B) in *. set (d := c mod k) in *. set (h := c / k) in *.
  clearbody d h. clearbody c. rewrite H2. ring.
Qed.

Lemma place_S k s q t : k <> 0 ->
  place k (S s) q t = t mod k ^ s + digit t s k * k ^ s + q / (k ^ s * k) * (k ^ s * k).
Proof.
  intros Hk. unfold place, digit. rewrite Nat.pow_succ_r', (Nat.mul_comm k (k ^ s)).
  assert (HB : k ^ s <> 0) by (apply Nat.pow_nonzero; exact Hk).
  rewrite Nat.mod_mul_r by assumption. ring.
Qed.

Lemma ins_form k s x i : k <> 0 ->
  insert_digit x s i k = x mod k ^ s + i * k ^ s + x / (k ^ s * k) * (k ^ s * k).
Proof.
  intros Hk. unfold insert_digit. pose proof (decomp k s x Hk) as H.
  set (B := k ^ s) in *. set (a := x mod B) in *. set (d := digit x s k) in *.
  set (h := x / (B * k)) in *. clearbody a d h. nia.
Qed.

Lemma key_step k s q t x i : k <> 0 -> i < k ->
  ((place k s q t =? insert_digit x s i k) && (digit t s k =? digit x s k))%bool
  = ((i =? digit q s k) && (place k (S s) q t =? x))%bool.
Proof.
  intros Hk Hi. apply eq_true_iff_eq. rewrite !andb_true_iff, !Nat.eqb_eq.
  rewrite place_s, place_S, ins_form by exact Hk.
  pose proof (decomp k s x Hk) as Hx.
  assert (HB : k ^ s <> 0) by (apply Nat.pow_nonzero; exact Hk).
  pose proof (Nat.mod_upper_bound t (k ^ s) HB) as B1.
  pose proof (Nat.mod_upper_bound x (k ^ s) HB) as B2.
  pose proof (digit_lt q s k Hk) as B3. pose proof (digit_lt t s k Hk) as B4.
  pose proof (digit_lt x s k Hk) as B5.
  set (B := k ^ s) in *.
  set (at_ := t mod B) in *. set (ax := x mod B) in *.
  set (dq := digit q s k) in *. set (dt := digit t s k) in *. set (dx := digit x s k) in *.
  set (hq := q / (B * k)) in *. set (hx := x / (B * k)) in *.
  clearbody at_ ax dq dt dx hq hx. subst x. split.
  - intros [E1 E2]. apply compose_inj in E1; auto. destruct E1 as (Ea & Ed & Eh). subst. auto.
  - intros [E1 E2]. apply compose_inj in E2; auto. destruct E2 as (Ea & Ed & Eh). subst. auto.
Qed.

Lemma ins_lt k s stages x i : k <> 0 -> s < stages -> i < k -> x < k ^ stages ->
  insert_digit x s i k < k ^ stages.
Proof.
  intros Hk Hs Hi Hx. rewrite ins_form by exact Hk.
  assert (E : k ^ stages = k ^ s * k * k ^ (stages - S s)).
  { replace stages with (S s + (stages - S s)) at 1 by lia.
    rewrite Nat.pow_add_r, Nat.pow_succ_r'. ring. }
  rewrite E in *.
  assert (HB : k ^ s <> 0) by (apply Nat.pow_nonzero; exact Hk).
  pose proof (Nat.mod_upper_bound x (k ^ s) HB) as B1.
  set (B := k ^ s) in *. set (M := k ^ (stages - S s)) in *.
  assert (Hh : x / (B * k) < M).
  { apply Nat.div_lt_upper_bound; [nia|exact Hx]. }
  set (a := x mod B) in *. set (h := x / (B * k)) in *. clearbody a h.
  assert ((i + 1) * B <= k * B) by (apply Nat.mul_le_mono_r; lia).
  assert ((h + 1) * (B * k) <= M * (B * k)) by (apply Nat.mul_le_mono_r; lia).
  nia.
Qed.

Lemma place_0 k q t : place k 0 q t = q.
Proof.
  unfold place. rewrite Nat.pow_0_r, Nat.mod_1_r, Nat.div_1_r. lia.
Qed.

Lemma place_final k stages q t : q < k ^ stages -> t < k ^ stages -> place k stages q t = t.
Proof.
  intros Hq Ht. unfold place. rewrite Nat.div_small, Nat.mod_small by assumption. lia.
Qed.

(* ---------------------------------------------------------------------------------------- *)
(* 1. single stage *)

Lemma digit_simple t n : t < n -> digit (t mod n) 0 n = t.
Proof.
  intros H. unfold digit. rewrite Nat.pow_0_r, Nat.div_1_r.
  rewrite (Nat.mod_small t n H). apply Nat.mod_small; exact H.
Qed.

Theorem simple_route : forall (payload : Type) (n_in n_out : nat) (sel : list nat) (filtered : bool)
                              (Ps : list (list (row payload))),
  length Ps = n_in ->
  (forall p, In p sel -> p < n_out) ->
  (forall P r, In P Ps -> In r P -> target r < n_out) ->
  exec_shuffle (simple_layer n_in n_out sel filtered) Ps = Some (map (routed Ps) sel).
Proof.
  intros payload n_in n_out sel filtered Ps Hlen Hsel Htgt.
  unfold exec_shuffle, simple_layer. cbn [sh_stages sh_regroup exec_stages exec_regroup].
  match goal with |- match match ?e with _ => _ end with _ => _ end = _ =>
    assert (E : e = Some (map (routed Ps) sel)); [|rewrite E; reflexivity] end.
  unfold exec_stage. cbn [sl_outs sl_groups].
  destruct sel as [|s0 sl]; [reflexivity|].
  cbv iota. remember (s0 :: sl) as sel eqn:Esel.
  rewrite map_map. apply opt_all_map. intros p Hp. rewrite map_map.
  rewrite (opt_concat_map _
     (fun p_in => filter (fun r : row payload => digit (target r mod n_out) 0 n_out =? p) (nth p_in Ps []))).
  - f_equal. rewrite <- filter_flat_map. rewrite flat_map_nth_seq by lia.
    unfold routed. apply filter_ext_in. intros r Hr.
    apply in_concat in Hr. destruct Hr as (P & HP & HrP).
    rewrite digit_simple by (eapply Htgt; eassumption). reflexivity.
  - intros i Hi. cbn [fst snd]. rewrite lookup_map by exact Hi.
    unfold piece. cbn [gt_filter gt_input gt_stage gt_k gt_np].
    destruct filtered.
    + assert (Hex : existsb (Nat.eqb p) sel = true).
      { apply existsb_exists. exists p. split; [exact Hp|apply Nat.eqb_refl]. }
      rewrite Hex. reflexivity.
    + reflexivity.
Qed.

(* ---------------------------------------------------------------------------------------- *)
(* 3. disk *)

Theorem disk_route : forall (payload : Type) (sigma : list nat) (sel : list nat) (Ps : list (list (row payload))),
  Permutation sigma (seq 0 (length Ps)) ->
  forall i, i < length sel -> Permutation (nth i (exec_disk sigma Ps sel) []) (routed Ps (nth i sel 0)).
Proof.
  intros payload sigma sel Ps Hsig i Hi.
  unfold exec_disk. rewrite (nth_map_default _ _ _ 0) by exact Hi.
  set (p := nth i sel 0). assert (Hp : In p sel) by (apply nth_In; exact Hi).
  unfold disk_collect.
  assert (Hex : existsb (Nat.eqb p) sel = true).
  { apply existsb_exists. exists p. split; [exact Hp|apply Nat.eqb_refl]. }
  rewrite Hex.
  rewrite (Permutation_flat_map_list _ _ _ Hsig).
  rewrite <- filter_flat_map, flat_map_nth_seq by lia. apply Permutation_refl.
Qed.

(* ---------------------------------------------------------------------------------------- *)
(* 2. staged *)

Section Staged.
  Variable payload : Type.
  Variables n_in n_out k stages : nat.
  Variable sel : list nat.
  Variable filtered : bool.
  Variable Ps : list (list (row payload)).
  Hypothesis Hlen : length Ps = n_in.
  Hypothesis Hnin : 1 <= n_in.
  Hypothesis Hle : n_in <= n_out.
  Hypothesis Hk : 2 <= k.
  Hypothesis HK : n_in <= k ^ stages.
  Hypothesis Hst : 1 <= stages.
  Hypothesis Hsel : forall p, In p sel -> p < n_out.
  Hypothesis Htgt : forall P r, In P Ps -> In r P -> target r < n_out.

  Local Notation K := (k ^ stages).
  Local Notation rw := (row payload).

  Definition is_last (s : nat) : bool := ((S s =? stages) && (n_out =? n_in))%bool.
  Definition parts_out (s : nat) : list nat := if is_last s then sel else seq 0 K.
  Definition stage_flt (s : nat) : option (list nat) :=
    if (is_last s && filtered)%bool then Some (map (fun p => digit p s k) sel) else None.
  Definition stage_outs (s : nat) : list (list (nat * nat)) :=
    map (fun p => map (fun i => (digit p s k, insert_digit p s i k)) (seq 0 k)) (parts_out s).
  Definition stage_task (s inp : nat) : gtask :=
    {| gt_input := if s =? 0 then (if inp <? n_in then Some inp else None) else Some inp;
       gt_filter := stage_flt s; gt_stage := s; gt_k := k; gt_np := n_in; gt_nfinal := n_out |}.

  Lemma task_stage_eq s :
    task_stage n_in n_out k stages sel filtered s =
    {| sl_outs := stage_outs s; sl_parts := parts_out s;
       sl_groups := map (fun inp => (inp, stage_task s inp))
                        (dedup_sorted K (map snd (concat (stage_outs s)))) |}.
  Proof. reflexivity. Qed.

  Definition stage_part (s : nat) (prev : list (list rw)) (p : nat) : list rw :=
    flat_map (fun i => filter (fun r : rw => digit (target r mod n_in) s k =? digit p s k)
                              (nth (insert_digit p s i k) prev []))
             (seq 0 k).

  Definition spec_at (s x : nat) : list rw :=
    flat_map (fun q => filter (fun r : rw => place k s q (target r mod n_in) =? x) (nth q Ps []))
             (seq 0 K).

  Definition inv (s : nat) (parts : list (list rw)) : Prop :=
    forall x, x < K -> Permutation (nth x parts []) (spec_at s x).

  Lemma k_nz : k <> 0. Proof. lia. Qed.

  Lemma parts_out_lt s p : In p (parts_out s) -> p < K.
  Proof.
    unfold parts_out, is_last. destruct (S s =? stages); cbn [andb].
    - destruct (n_out =? n_in) eqn:E.
      + apply Nat.eqb_eq in E. intros H. apply Hsel in H. lia.
      + intros H. apply in_seq in H. lia.
    - intros H. apply in_seq in H. lia.
  Qed.

  Lemma keep_true s p : In p (parts_out s) ->
    match stage_flt s with None => true | Some f => existsb (Nat.eqb (digit p s k)) f end = true.
  Proof.
    unfold stage_flt, parts_out. destruct (is_last s); cbn [andb]; [|reflexivity].
    destruct filtered; [|reflexivity]. intros H.
    apply existsb_exists. exists (digit p s k). split; [|apply Nat.eqb_refl].
    apply in_map_iff. exists p. auto.
  Qed.

  Lemma exec_task_stage s prev :
    s < stages ->
    (s = 0 -> forall j, n_in <= j -> nth j prev [] = []) ->
    exec_stage (task_stage n_in n_out k stages sel filtered s) prev
    = Some (map (stage_part s prev) (parts_out s)).
  Proof.
    intros Hs H0. rewrite task_stage_eq. unfold exec_stage. cbn [sl_outs sl_groups].
    unfold stage_outs at 2. rewrite map_map.
    apply (opt_all_map _ (stage_part s prev)). intros p Hp. rewrite map_map.
    unfold stage_part. apply opt_concat_map. intros i Hi. cbv beta. cbn [fst snd].
    apply in_seq in Hi. pose proof (parts_out_lt s p Hp) as Hpk.
    rewrite lookup_map.
    2:{ unfold dedup_sorted. apply filter_In. split.
        - apply in_seq. split; [lia|]. cbn [plus]. apply ins_lt; [apply k_nz|lia|lia|exact Hpk].
        - apply existsb_exists. exists (insert_digit p s i k). split; [|apply Nat.eqb_refl].
          apply in_map_iff. exists (digit p s k, insert_digit p s i k). split; [reflexivity|].
          apply in_concat. exists (map (fun i => (digit p s k, insert_digit p s i k)) (seq 0 k)).
          split.
          + unfold stage_outs. apply in_map_iff. exists p. auto.
          + apply in_map_iff. exists i. split; [reflexivity|]. apply in_seq. lia. }
    unfold piece, stage_task. cbn [gt_filter gt_input gt_stage gt_k gt_np].
    rewrite (keep_true s p Hp).
    f_equal. f_equal.
    destruct (s =? 0) eqn:E0; [|reflexivity].
    apply Nat.eqb_eq in E0.
    destruct (insert_digit p s i k <? n_in) eqn:E1; [reflexivity|].
    apply Nat.ltb_ge in E1. symmetry. apply H0; assumption.
  Qed.

  Lemma inv_0 : inv 0 Ps.
  Proof.
    intros x Hx. unfold spec_at.
    rewrite (flat_map_ext_in _ (fun q => filter (fun _ : rw => q =? x) (nth q Ps []))).
    2:{ intros q _. apply filter_ext. intros r. rewrite place_0. reflexivity. }
    rewrite (flat_map_single _ K x Hx).
    - rewrite filter_true; [apply Permutation_refl|]. intros; apply Nat.eqb_refl.
    - intros i _ Hne. apply filter_false. intros _. apply Nat.eqb_neq. exact Hne.
  Qed.

  Lemma stage_part_spec s prev x :
    s < stages -> inv s prev -> x < K -> Permutation (stage_part s prev x) (spec_at (S s) x).
  Proof.
    intros Hs Hinv Hx. unfold stage_part.
    transitivity
      (flat_map (fun i => flat_map (fun q => filter (fun r : rw =>
            ((i =? digit q s k) && (place k (S s) q (target r mod n_in) =? x))%bool) (nth q Ps []))
          (seq 0 K)) (seq 0 k)).
    - apply Permutation_flat_map_pw. intros i Hi. apply in_seq in Hi.
      eapply perm_trans.
      + apply Permutation_filter'. apply Hinv. apply ins_lt; [apply k_nz|lia|lia|exact Hx].
      + unfold spec_at. rewrite filter_flat_map.
        apply Permutation_flat_map_pw. intros q _. rewrite filter_filter'.
        erewrite filter_ext; [apply Permutation_refl|].
        intros r. cbv beta. apply key_step; [apply k_nz|lia].
    - rewrite flat_map_swap. unfold spec_at.
      apply Permutation_flat_map_pw. intros q _.
      rewrite (flat_map_single _ k (digit q s k)).
      + erewrite filter_ext; [apply Permutation_refl|].
        intros r. cbv beta. rewrite Nat.eqb_refl. reflexivity.
      + apply digit_lt, k_nz.
      + intros i _ Hne. apply filter_false. intros r.
        apply Nat.eqb_neq in Hne. rewrite Hne. reflexivity.
  Qed.

  Lemma spec_final x :
    spec_at stages x = filter (fun r : rw => target r mod n_in =? x) (concat Ps).
  Proof.
    unfold spec_at.
    rewrite (flat_map_ext_in _ (fun q => filter (fun r : rw => target r mod n_in =? x) (nth q Ps []))).
    - rewrite <- filter_flat_map, flat_map_nth_seq by lia. reflexivity.
    - intros q Hq. apply in_seq in Hq. apply filter_ext. intros r.
      rewrite place_final; [reflexivity|lia|].
      pose proof (Nat.mod_upper_bound (target r) n_in). lia.
  Qed.

  Lemma run_stages : forall len a prev,
    a + S len = stages ->
    inv a prev ->
    (a = 0 -> forall j, n_in <= j -> nth j prev [] = []) ->
    exists outs,
      exec_stages (map (task_stage n_in n_out k stages sel filtered) (seq a (S len))) prev = Some outs /\
      length outs = length (parts_out (stages - 1)) /\
      forall i, i < length (parts_out (stages - 1)) ->
        Permutation (nth i outs []) (spec_at stages (nth i (parts_out (stages - 1)) 0)).
  Proof.
    induction len as [|len IH]; intros a prev Ha Hinv H0.
    - cbn [seq map exec_stages]. rewrite exec_task_stage by (lia || assumption).
      replace (stages - 1) with a by lia.
      eexists. split; [reflexivity|]. split; [apply map_length|].
      intros i Hi. rewrite (nth_map_default _ _ _ 0) by exact Hi.
      replace stages with (S a) at 1 by lia.
      apply stage_part_spec; [lia|exact Hinv|].
      apply (parts_out_lt a). apply nth_In. exact Hi.
    - remember (S len) as len'. cbn [seq map exec_stages].
      rewrite exec_task_stage by (lia || assumption).
      assert (Hnl : parts_out a = seq 0 K).
      { unfold parts_out, is_last. replace (S a =? stages) with false; [reflexivity|].
        symmetry. apply Nat.eqb_neq. lia. }
      rewrite Hnl. subst len'. apply IH.
      + lia.
      + intros x Hx. rewrite (nth_map_default _ _ _ 0) by (rewrite seq_length; exact Hx).
        rewrite seq_nth by exact Hx. cbn [plus].
        apply stage_part_spec; [lia|exact Hinv|exact Hx].
      + intros; lia.
  Qed.

  Lemma tgt_lt r : In r (concat Ps) -> target r < n_out.
  Proof.
    intros Hr. apply in_concat in Hr. destruct Hr as (P & HP & HrP). eapply Htgt; eassumption.
  Qed.

  Theorem staged_route_sec :
    exists outs, exec_shuffle (task_layer n_in n_out k stages sel filtered) Ps = Some outs /\
                 length outs = length sel /\
                 forall i, i < length sel -> Permutation (nth i outs []) (routed Ps (nth i sel 0)).
  Proof.
    destruct (run_stages (stages - 1) 0 Ps) as (parts & Hex & Hl & Hperm).
    - lia.
    - apply inv_0.
    - intros _ j Hj. apply nth_overflow. lia.
    - unfold exec_shuffle, task_layer. cbn [sh_stages sh_regroup].
      replace (S (stages - 1)) with stages in Hex by lia. rewrite Hex.
      unfold parts_out, is_last in Hl, Hperm.
      replace (S (stages - 1) =? stages) with true in Hl, Hperm by (symmetry; apply Nat.eqb_eq; lia).
      cbn [andb] in Hl, Hperm.
      destruct (n_out =? n_in) eqn:E.
      + apply Nat.eqb_eq in E. cbn [exec_regroup].
        exists parts. split; [reflexivity|]. split; [exact Hl|].
        intros i Hi. rewrite (Hperm i Hi), spec_final. unfold routed.
        erewrite filter_ext_in; [apply Permutation_refl|].
        intros r Hr. cbv beta. apply tgt_lt in Hr. rewrite Nat.mod_small by lia. reflexivity.
      + apply Nat.eqb_neq in E. cbn [exec_regroup]. rewrite seq_length in Hl, Hperm.
        eexists. split; [reflexivity|]. rewrite map_map. split; [apply map_length|].
        intros i Hi. rewrite (nth_map_default _ _ _ 0) by exact Hi. cbn [fst snd].
        set (p := nth i sel 0).
        assert (Hp : p mod n_in < K).
        { pose proof (Nat.mod_upper_bound p n_in). lia. }
        eapply perm_trans.
        * apply Permutation_filter'. apply (Hperm _ Hp).
        * rewrite seq_nth by exact Hp. cbn [plus]. rewrite spec_final, filter_filter'.
          unfold routed. erewrite filter_ext; [apply Permutation_refl|].
          intros r. cbv beta. destruct (target r =? p) eqn:Et.
          -- apply Nat.eqb_eq in Et. rewrite Et, Nat.eqb_refl. reflexivity.
          -- apply andb_false_r.
  Qed.
End Staged.

Theorem staged_route : forall (payload : Type) (n_in n_out k stages : nat) (sel : list nat) (filtered : bool)
                              (Ps : list (list (row payload))),
  length Ps = n_in -> 1 <= n_in -> n_in <= n_out -> 2 <= k -> n_in <= k ^ stages -> 1 <= stages ->
  (forall p, In p sel -> p < n_out) ->
  (forall P r, In P Ps -> In r P -> target r < n_out) ->
  exists outs, exec_shuffle (task_layer n_in n_out k stages sel filtered) Ps = Some outs /\
               length outs = length sel /\
               forall i, i < length sel -> Permutation (nth i outs []) (routed Ps (nth i sel 0)).
Proof. intros. apply staged_route_sec; assumption. Qed.

(* ---------------------------------------------------------------------------------------- *)
(* 4. full selection: permutation of the input, keys co-located *)

Theorem shuffle_permutation : forall (payload : Type) (n_in n_out k stages : nat)
                                     (Ps : list (list (row payload))) outs,
  length Ps = n_in -> 1 <= n_in -> n_in <= n_out -> 2 <= k -> n_in <= k ^ stages -> 1 <= stages ->
  (forall P r, In P Ps -> In r P -> target r < n_out) ->
  exec_shuffle (task_layer n_in n_out k stages (seq 0 n_out) false) Ps = Some outs ->
  Permutation (concat outs) (concat Ps) /\ (forall i r, i < n_out -> In r (nth i outs []) -> target r = i).
Proof.
  intros payload n_in n_out k stages Ps outs Hlen Hnin Hle Hk HK Hst Htgt Hex.
  destruct (staged_route payload n_in n_out k stages (seq 0 n_out) false Ps) as (outs' & Hex' & Hl & Hperm);
    try assumption.
  { intros p Hp. apply in_seq in Hp. lia. }
  rewrite Hex in Hex'. injection Hex' as <-. rewrite seq_length in Hl, Hperm.
  split.
  - transitivity (concat (map (routed Ps) (seq 0 n_out))).
    + apply concat_perm_nth.
      * rewrite map_length, seq_length. exact Hl.
      * intros i Hi. rewrite Hl in Hi.
        rewrite (nth_map_default _ _ _ 0) by (rewrite seq_length; exact Hi). apply Hperm. exact Hi.
    + rewrite <- flat_map_concat_map. unfold routed.
      apply (split_by_class (fun r : row payload => target r)).
      intros r Hr. apply in_concat in Hr. destruct Hr as (P & HP & HrP). eapply Htgt; eassumption.
  - intros i r Hi Hr.
    apply (Permutation_in _ (Hperm i Hi)) in Hr. rewrite seq_nth in Hr by exact Hi. cbn [plus] in Hr.
    unfold routed in Hr. apply filter_In in Hr. destruct Hr as [_ Hr]. apply Nat.eqb_eq. exact Hr.
Qed.

(* ---------------------------------------------------------------------------------------- *)
(* non-vacuity examples *)

Definition exPs5 : list (list (row nat)) :=
  [ [(0, 10); (3, 11); (4, 12); (2, 13)];
    [(1, 20); (0, 21); (2, 22)];
    [(4, 30); (4, 31); (3, 32); (0, 33)];
    [(2, 40); (1, 41)];
    [(3, 50); (0, 51); (1, 52); (2, 53); (4, 54)] ].

Example ex_filtered_subset :
  exec_shuffle (task_layer 5 5 3 2 [0; 2; 3; 4] true) exPs5
  = Some [ [(0, 10); (0, 21); (0, 33); (0, 51)];
           [(2, 13); (2, 22); (2, 40); (2, 53)];
           [(3, 11); (3, 32); (3, 50)];
           [(4, 12); (4, 30); (4, 31); (4, 54)] ].
Proof. vm_compute. reflexivity. Qed.

Example ex_filtered_subset_routed :
  exec_shuffle (task_layer 5 5 3 2 [0; 2; 3; 4] true) exPs5 = Some (map (routed exPs5) [0; 2; 3; 4]).
Proof. vm_compute. reflexivity. Qed.

Definition exPs3 : list (list (row nat)) :=
  [ [(0, 10); (6, 11); (3, 12); (5, 13)];
    [(1, 20); (4, 21); (6, 22); (2, 23)];
    [(5, 30); (0, 31); (3, 32)] ].

Example ex_regroup :
  exec_shuffle (task_layer 3 7 2 2 (seq 0 7) false) exPs3 = Some (map (routed exPs3) (seq 0 7)).
Proof. vm_compute. reflexivity. Qed.

Example ex_regroup_subset :
  exec_shuffle (task_layer 3 7 2 2 [6; 0; 3] true) exPs3
  = Some [ [(6, 11); (6, 22)]; [(0, 10); (0, 31)]; [(3, 12); (3, 32)] ].
Proof. vm_compute. reflexivity. Qed.

Print Assumptions simple_route.
Print Assumptions staged_route.
Print Assumptions disk_route.
Print Assumptions shuffle_permutation.
