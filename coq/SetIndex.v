(* SetIndex.v -- routing of rows to output partitions by `set_index` / `sort_values` on computed or user-given divisions
   (_shuffle.py: SetIndex._lower / SortValues._lower assign `_SetPartitionsPreSetIndex(key, divisions)` and shuffle on it;
   the operation is dask.dataframe.shuffle.set_partitions_pre, ascending branch, keys without missing values):
       partitions = divisions.searchsorted(s, side="right") - 1
       partitions[(partitions < 0) | (partitions >= len(divisions) - 1)] = len(divisions) - 2
   Definitions only; theorems in SetIndexProofs.v.  Stdlib only, no axioms. *)
From DX Require Import Base Divisions Loc.

(* NOTE: differs from Loc.part_of below the first division: a key below divisions[0] goes to the LAST partition *)
Definition sp_part (divs : list Z) (v : Z) : nat :=
  let b := bisect_right divs v in
  if (b =? 0) || (length divs - 1 <=? b - 1) then length divs - 2 else b - 1.

(* output partition i of the shuffle on that column: the rows (keys) numbered i, in input order *)
Definition sp_parts (divs : list Z) (rows : list Z) : list (list Z) :=
  map (fun i => filter (fun v => sp_part divs v =? i) rows) (seq 0 (length divs - 1)).

(* all keys inside the closed range of the divisions (true for divisions computed from the data: quantiles with min / max
   as the end points; an assumption when the user passes divisions=) *)
Definition keys_within (divs : list Z) (rows : list Z) : Prop :=
  forall v, In v rows -> (nth 0 divs 0 <= v <= nth (length divs - 1) divs 0)%Z.

(* descending sorts (sort_values(ascending=False)): the divisions stay ascending, the partition numbers are mirrored
       partitions = len(divisions) - divisions.searchsorted(s, side="right") - 1
       partitions[(partitions < 0) | (partitions >= len(divisions) - 1)] = 0 *)
Definition sp_part_desc (divs : list Z) (v : Z) : nat :=
  let b := bisect_right divs v in
  if (b =? 0) || (length divs <=? b) then 0 else length divs - b - 1.

Definition sp_parts_desc (divs : list Z) (rows : list Z) : list (list Z) :=
  map (fun i => filter (fun v => sp_part_desc divs v =? i) rows) (seq 0 (length divs - 1)).

(* no key below the first division *)
Definition keys_above (divs : list Z) (rows : list Z) : Prop :=
  forall v, In v rows -> (nth 0 divs 0 <= v)%Z.
