(* PropC05.v -- property C05: results do not depend on task scheduling.  Statements only.
   `fn` is the (pure) function each task applies; purity of the real task functions is observed by the
   harness (argument fingerprints), see the trusted base. *)
From DX Require Import Base Graph GraphProofs.

(* any dependency-respecting commit order (any number of workers, results committed atomically) computes,
   for every key it reaches, the canonical value *)
Theorem C05_determinacy : forall (V : Type) (dV : V) (fn : nat -> list V -> V) (g : graph) outs ks st,
  wf_check g outs = true -> run V dV fn g [] ks = Some st ->
  forall k v, lookup V k st = Some v -> lookup V k (canon V dV fn g) = Some v.
Proof. exact determinacy. Qed.
Print Assumptions C05_determinacy.

Theorem C05_complete_runs_agree : forall (V : Type) (dV : V) (fn : nat -> list V -> V) g outs ks1 ks2 st1 st2,
  wf_check g outs = true -> run V dV fn g [] ks1 = Some st1 -> run V dV fn g [] ks2 = Some st2 ->
  complete V g st1 = true -> complete V g st2 = true ->
  forall k, In k (keys_of g) -> lookup V k st1 = lookup V k st2.
Proof. exact complete_runs_agree. Qed.
Print Assumptions C05_complete_runs_agree.

(* no dependency-respecting order can deadlock *)
Theorem C05_progress : forall (V : Type) (dV : V) (fn : nat -> list V -> V) g outs ks st,
  wf_check g outs = true -> run V dV fn g [] ks = Some st -> complete V g st = false ->
  exists k, ready V g st k = true.
Proof. exact progress. Qed.
Print Assumptions C05_progress.

(* disk shuffle: whatever order the (effectful, append-only) partition tasks ran in before the barrier,
   collect(k) returns a permutation of the rows routed to k -- the "up to row order inside disk-shuffled
   partitions" clause *)
From Coq Require Import Permutation.
From DX Require Import Shuffle ShuffleProofs.
Theorem C05_disk_barrier : forall (payload : Type) (sigma : list nat) (sel : list nat) (Ps : list (list (row payload))),
  Permutation sigma (seq 0 (length Ps)) ->
  forall i, i < length sel -> Permutation (nth i (exec_disk sigma Ps sel) []) (routed Ps (nth i sel 0)).
Proof. exact disk_route. Qed.
Print Assumptions C05_disk_barrier.
