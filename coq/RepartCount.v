(* RepartCount.v -- proofs about count-based repartitioning (RepartitionToFewer / ToMore). *)
From DX Require Import Base Repart.
Set Implicit Arguments.

Lemma skipn_S_nth : forall A (d : A) (l : list A) s, s < length l -> skipn s l = nth s l d :: skipn (S s) l.
Proof.
  intros A d l. induction l as [|x l IH]; intros s Hs; simpl in Hs; [lia|].
  destruct s as [|s]; [reflexivity|]. cbn [skipn nth]. apply IH. lia.
Qed.

Lemma flat_nth_seq : forall A (P : list (list A)) n s, s + n <= length P ->
  flat_map (fun j => nth j P []) (seq s n) = concat (firstn n (skipn s P)).
Proof.
  intros A P n. induction n as [|n IH]; intros s H; [reflexivity|].
  cbn [seq flat_map]. rewrite (skipn_S_nth [] P) by lia. cbn [firstn concat]. f_equal.
  apply IH. lia.
Qed.

Lemma skipn_skipn' : forall A (l : list A) x y, skipn x (skipn y l) = skipn (y + x) l.
Proof.
  intros A l x y. revert l. induction y as [|y IH]; intros l; [reflexivity|].
  destruct l as [|a l]; [destruct x; reflexivity|]. cbn [skipn Nat.add]. apply IH.
Qed.

Lemma firstn_add : forall A (l : list A) n m, firstn (n + m) l = firstn n l ++ firstn m (skipn n l).
Proof.
  intros A l n. revert l. induction n as [|n IH]; intros l m; [reflexivity|].
  destruct l as [|a l]; [destruct m; reflexivity|]. cbn [Nat.add firstn skipn app]. f_equal. apply IH.
Qed.

(* boundaries as RepartitionToFewer needs them: non-decreasing, ending at e *)
Fixpoint chain (s : nat) (bs : list nat) (e : nat) : Prop :=
  match bs with
  | [] => s = e
  | b :: r => s <= b /\ chain b r e
  end.

Lemma chain_le : forall bs s e, chain s bs e -> s <= e.
Proof. induction bs as [|b r IH]; intros s e H; simpl in H; [lia|]. destruct H as [H1 H2]. apply IH in H2. lia. Qed.

Lemma exec_fewer_cons : forall A (P : list (list A)) s b r,
  exec_fewer (s :: b :: r) P = flat_map (fun j => nth j P []) (seq s (b - s)) :: exec_fewer (b :: r) P.
Proof. reflexivity. Qed.

Lemma exec_fewer_chain : forall A (P : list (list A)) bs s e,
  chain s bs e -> e <= length P ->
  concat (exec_fewer (s :: bs) P) = concat (firstn (e - s) (skipn s P)).
Proof.
  intros A P bs. induction bs as [|b r IH]; intros s e Hc He.
  - simpl in Hc. subst. rewrite Nat.sub_diag. reflexivity.
  - destruct Hc as [Hsb Hc]. pose proof (chain_le _ _ _ Hc) as Hbe.
    rewrite exec_fewer_cons. cbn [concat]. rewrite (IH b e Hc He).
    rewrite flat_nth_seq by lia.
    replace (e - s) with ((b - s) + (e - b)) by lia.
    rewrite firstn_add, concat_app, skipn_skipn'. repeat f_equal. lia.
Qed.

(* RepartitionToFewer: for ANY boundary list that starts at 0, is non-decreasing and ends at the number of
   input partitions, concatenating the outputs gives back all rows in the original order, and the number of
   outputs is |boundaries| - 1. *)
Theorem fewer_eq : forall A (P : list (list A)) bs,
  chain 0 bs (length P) -> concat (exec_fewer (0 :: bs) P) = concat P.
Proof.
  intros A P bs H. rewrite (@exec_fewer_chain A P bs 0 (length P) H (le_n _)).
  rewrite Nat.sub_0_r. cbn [skipn]. rewrite firstn_all. reflexivity.
Qed.

Lemma fewer_count : forall A (P : list (list A)) bs, length (exec_fewer (0 :: bs) P) = length bs.
Proof.
  intros A P bs. unfold exec_fewer, fewer_ranges. rewrite !map_length.
  generalize 0. induction bs as [|b r IH]; intros s; [reflexivity|]. cbn [ranges length]. f_equal. apply IH.
Qed.

(* ---- RepartitionToMore ---------------------------------------------------------------- *)
Section More.
  Variable row : Type.
  Variable split : nat -> list row -> list (list row).          (* dask's split_evenly *)
  Hypothesis split_concat : forall k p, 1 <= k -> concat (split k p) = p.
  Hypothesis split_length : forall k p, length (split k p) = k.

  Definition exec_mtask (nsplits : list nat) (P : list (list row)) (t : mtask) : list row :=
    match t with
    | MAlias i => nth i P []
    | MPiece i jj => nth jj (split (nth i nsplits 0) (nth i P [])) []
    end.
  Definition exec_more (nsplits : list nat) (P : list (list row)) : list (list row) :=
    map (exec_mtask nsplits P) (more_layer nsplits).

  Lemma more_one : forall nsplits P i k, nth i nsplits 0 = k -> 1 <= k ->
    concat (map (exec_mtask nsplits P) (if k =? 1 then [MAlias i] else map (fun jj => MPiece i jj) (seq 0 k))) = nth i P [].
  Proof.
    intros nsplits P i k Hk H1. destruct (k =? 1) eqn:E.
    - simpl. apply app_nil_r.
    - rewrite map_map. cbn [exec_mtask]. rewrite Hk.
      rewrite <- (split_length k (nth i P [])) at 1.
      rewrite (map_nth_seq [] (split k (nth i P []))). apply split_concat. exact H1.
  Qed.

  Lemma more_layer_from : forall nsplits P (l : list nat) s,
    (forall j k, nth_error l j = Some k -> nth (s + j) nsplits 0 = k /\ 1 <= k) ->
    concat (map (exec_mtask nsplits P)
              (flat_map (fun ik : nat * nat => let '(i, k) := ik in
                           if k =? 1 then [MAlias i] else map (fun jj => MPiece i jj) (seq 0 k))
                        (combine (seq s (length l)) l)))
    = flat_map (fun i => nth i P []) (seq s (length l)).
  Proof.
    intros nsplits P l. induction l as [|k r IH]; intros s H; [reflexivity|].
    cbn [length seq combine flat_map]. rewrite map_app, concat_app. f_equal.
    - destruct (H 0 k eq_refl) as [Hn Hk]. rewrite Nat.add_0_r in Hn. apply more_one; assumption.
    - apply IH. intros j k' Hj. specialize (H (S j) k' Hj). rewrite Nat.add_succ_r in H. exact H.
  Qed.

  (* every input row comes out exactly once, in order, whatever the split counts (all >= 1) *)
  Theorem more_eq : forall nsplits P,
    length nsplits = length P -> (forall k, In k nsplits -> 1 <= k) ->
    concat (exec_more nsplits P) = concat P.
  Proof.
    intros nsplits P Hlen Hpos. unfold exec_more, more_layer.
    rewrite (more_layer_from nsplits P nsplits 0).
    - rewrite Hlen. rewrite flat_nth_seq by lia. cbn [skipn]. rewrite firstn_all. reflexivity.
    - intros j k Hj. cbn [Nat.add]. split.
      + apply nth_error_nth with (d:=0) in Hj. exact Hj.
      + apply Hpos. eapply nth_error_In; eauto.
  Qed.
End More.

Lemma more_layer_length_from : forall nsplits s, (forall k, In k nsplits -> 1 <= k) ->
  length (flat_map (fun ik : nat * nat => let '(i, k) := ik in
                      if k =? 1 then [MAlias i] else map (fun jj => MPiece i jj) (seq 0 k))
                   (combine (seq s (length nsplits)) nsplits)) = sumN nsplits.
Proof.
  induction nsplits as [|k r IH]; intros s H; [reflexivity|].
  cbn [length seq combine flat_map sumN]. rewrite app_length. rewrite IH by (intros; apply H; right; assumption).
  f_equal. destruct (k =? 1) eqn:E; [apply Nat.eqb_eq in E; subst; reflexivity|].
  rewrite map_length, seq_length. reflexivity.
Qed.
Lemma more_layer_length : forall nsplits, (forall k, In k nsplits -> 1 <= k) -> length (more_layer nsplits) = sumN nsplits.
Proof. intros. unfold more_layer. apply more_layer_length_from. assumption. Qed.

Lemma sumN_repeat : forall x n, sumN (repeat x n) = n * x.
Proof. induction n; simpl; [reflexivity|]. rewrite IHn. lia. Qed.

(* _nsplits: one count per input partition, each >= 1, summing to the requested number *)
Theorem more_nsplits_ok : forall n_in n_out, 1 <= n_in -> n_in <= n_out ->
  length (more_nsplits n_in n_out) = n_in /\
  (forall k, In k (more_nsplits n_in n_out) -> 1 <= k) /\
  sumN (more_nsplits n_in n_out) = n_out.
Proof.
  intros n_in n_out H1 H2. unfold more_nsplits. destruct n_in as [|m]; [lia|].
  assert (Hd : 1 <= n_out / S m) by (apply Nat.div_le_lower_bound; lia).
  split; [rewrite app_length, repeat_length; simpl; lia|]. split.
  - intros k Hk. apply in_app_or in Hk. destruct Hk as [Hk|[Hk|[]]].
    + apply repeat_spec in Hk. lia.
    + lia.
  - rewrite sumN_app, sumN_repeat. cbn [sumN].
    pose proof (Nat.div_mod n_out (S m) ltac:(lia)). nia.
Qed.

Example more_nsplits_3_8 : more_nsplits 3 8 = [2; 2; 4].
Proof. reflexivity. Qed.
Example fewer_chain_example : chain 0 [2; 5; 7] 7 /\ fewer_ranges [0; 2; 5; 7] = [[0;1];[2;3;4];[5;6]].
Proof. split; [simpl; lia|reflexivity]. Qed.
