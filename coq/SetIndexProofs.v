(* SetIndexProofs.v -- theorems about SetIndex.v.  Stdlib only, no axioms. *)
From DX Require Import Base Divisions DivisionsProofs Loc LocProofs SetIndex.
From Coq Require Import ZifyBool.

Lemma sp_part_bound : forall divs v, 2 <= length divs -> sp_part divs v <= length divs - 2.
Proof.
  intros divs v H. unfold sp_part.
  pose proof (bisect_right_le_length divs v) as Hb.
  destruct ((bisect_right divs v =? 0) || (length divs - 1 <=? bisect_right divs v - 1)) eqn:E; lia.
Qed.

Lemma sortedZ_mono : forall l i j, sortedZ l -> i <= j -> j < length l -> (nth i l 0 <= nth j l 0)%Z.
Proof.
  intros l i j Hs Hij Hj. induction j as [|j IH].
  - assert (i = 0) by lia. subst. lia.
  - destruct (Nat.eq_dec i (S j)) as [->|Hne]; [lia|].
    assert (H1 : (nth i l 0 <= nth j l 0)%Z) by (apply IH; lia).
    assert (H2 : (nth j l 0 <= nth (S j) l 0)%Z) by (apply Hs; lia).
    lia.
Qed.

(* a key inside the range of the divisions lands in a partition whose reported bounds contain it *)
Theorem sp_part_row_ok : forall divs v, sortedZ divs -> 2 <= length divs ->
  (nth 0 divs 0 <= v <= nth (length divs - 1) divs 0)%Z ->
  row_ok divs (length divs - 1) (sp_part divs v) v.
Proof.
  intros divs v Hs Hl [Hlo Hhi]. unfold sp_part, row_ok.
  pose proof (bisect_right_le_length divs v) as Hb.
  destruct (Nat.eq_dec (bisect_right divs v) 0) as [E0|E0].
  - (* v < divs[0] : impossible inside the range *)
    exfalso. assert (H0 : (v < nth (bisect_right divs v) divs 0)%Z) by (apply bisect_right_next; lia).
    rewrite E0 in H0. lia.
  - destruct (Nat.eq_dec (bisect_right divs v) (length divs)) as [E1|E1].
    + (* every division <= v : last partition, v = last division *)
      replace ((bisect_right divs v =? 0) || (length divs - 1 <=? bisect_right divs v - 1)) with true by lia.
      replace (S (length divs - 2)) with (length divs - 1) by lia.
      split.
      * apply bisect_right_prefix. lia.
      * right. split; [reflexivity|lia].
    + replace ((bisect_right divs v =? 0) || (length divs - 1 <=? bisect_right divs v - 1)) with false by lia.
      replace (S (bisect_right divs v - 1)) with (bisect_right divs v) by lia.
      split.
      * apply bisect_right_prefix. lia.
      * left. apply bisect_right_next. lia.
Qed.

Lemma sp_parts_length : forall divs rows, length (sp_parts divs rows) = length divs - 1.
Proof. intros. unfold sp_parts. rewrite map_length, seq_length. reflexivity. Qed.

Lemma sp_parts_nth : forall divs rows i, i < length divs - 1 ->
  nth i (sp_parts divs rows) [] = filter (fun v => sp_part divs v =? i) rows.
Proof.
  intros divs rows i Hi. unfold sp_parts.
  set (f := fun i => filter (fun v => sp_part divs v =? i) rows).
  rewrite nth_indep with (d' := f 0) by (rewrite map_length, seq_length; exact Hi).
  rewrite map_nth. rewrite seq_nth by exact Hi. reflexivity.
Qed.

(* every row is in exactly the output partition numbered by sp_part: none lost, none in two partitions *)
Theorem set_index_partition_exact : forall divs rows i v, i < length divs - 1 ->
  (In v (nth i (sp_parts divs rows) []) <-> In v rows /\ sp_part divs v = i).
Proof.
  intros divs rows i v Hi. rewrite sp_parts_nth by exact Hi. rewrite filter_In.
  split; intros [H1 H2]; split; try exact H1; lia.
Qed.

Corollary set_index_no_row_lost : forall divs rows v, 2 <= length divs -> In v rows ->
  In v (nth (sp_part divs v) (sp_parts divs rows) []).
Proof.
  intros divs rows v Hl Hin. apply set_index_partition_exact.
  - pose proof (sp_part_bound divs v Hl). lia.
  - split; [exact Hin|reflexivity].
Qed.

(* the divisions reported by set_index / sort_values are truthful for the shuffled partitions *)
Theorem set_index_truthful : forall divs rows, sortedZ divs -> 2 <= length divs -> keys_within divs rows ->
  truthful divs (sp_parts divs rows).
Proof.
  intros divs rows Hs Hl Hk. unfold truthful. rewrite sp_parts_length.
  split; [lia|]. split; [exact Hs|].
  intros i x Hi Hin. apply set_index_partition_exact in Hin; [|exact Hi].
  destruct Hin as [Hin <-]. apply sp_part_row_ok; auto.
Qed.

(* without the range assumption the statement is false: a key below divisions[0] is sent to the LAST partition
   (user-given divisions that do not cover the data) *)
Theorem set_index_below_refuted : exists divs rows, sortedZ divs /\ 2 <= length divs /\
  ~ truthful divs (sp_parts divs rows).
Proof.
  exists [10; 20; 30]%Z, [5]%Z. split; [|split].
  - intros i Hi. simpl in Hi. destruct i as [|[|i]]; simpl; lia.
  - simpl. lia.
  - apply truthfulb_false. vm_compute. reflexivity.
Qed.

(* non-vacuity: a concrete frame meets the hypotheses, with keys equal to divisions and to the last division *)
Example set_index_example :
  sortedZ [0; 10; 10; 30]%Z /\ keys_within [0; 10; 10; 30]%Z [30; 0; 10; 29; 9]%Z /\
  sp_parts [0; 10; 10; 30]%Z [30; 0; 10; 29; 9]%Z = [[0; 9]; []; [30; 10; 29]]%Z.
Proof.
  split; [|split].
  - intros i Hi. simpl in Hi. destruct i as [|[|[|i]]]; simpl; lia.
  - intros v Hv. simpl in Hv. simpl. lia.
  - vm_compute. reflexivity.
Qed.

(* ================================================================== *)
(* order between output partitions: whatever divisions were chosen (npartitions, upsample, quantile estimates), sorting  *)
(* every output partition yields a globally sorted frame                                                                *)
(* ================================================================== *)

Lemma bisect_right_mono : forall divs v w, (v <= w)%Z -> bisect_right divs v <= bisect_right divs w.
Proof.
  induction divs as [|a r IH]; intros v w H; simpl; [lia|].
  destruct (a <=? v)%Z eqn:E1; destruct (a <=? w)%Z eqn:E2; try lia.
  specialize (IH v w H). lia.
Qed.

Lemma bisect_right_pos : forall divs v, 1 <= length divs -> (nth 0 divs 0 <= v)%Z -> 1 <= bisect_right divs v.
Proof.
  intros [|a r] v Hl H; simpl in *; [lia|].
  destruct (a <=? v)%Z eqn:E; lia.
Qed.

Theorem sp_part_mono : forall divs v w, 2 <= length divs -> (nth 0 divs 0 <= v)%Z -> (v <= w)%Z ->
  sp_part divs v <= sp_part divs w.
Proof.
  intros divs v w Hl H0 Hvw. unfold sp_part.
  pose proof (bisect_right_mono divs v w Hvw) as Hm.
  pose proof (bisect_right_pos divs v ltac:(lia) H0) as Hp.
  pose proof (bisect_right_le_length divs v) as Hb1.
  pose proof (bisect_right_le_length divs w) as Hb2.
  destruct ((bisect_right divs v =? 0) || (length divs - 1 <=? bisect_right divs v - 1)) eqn:E1;
  destruct ((bisect_right divs w =? 0) || (length divs - 1 <=? bisect_right divs w - 1)) eqn:E2; lia.
Qed.

Theorem sp_part_desc_anti : forall divs v w, 2 <= length divs -> (nth 0 divs 0 <= v)%Z -> (v <= w)%Z ->
  sp_part_desc divs w <= sp_part_desc divs v.
Proof.
  intros divs v w Hl H0 Hvw. unfold sp_part_desc.
  pose proof (bisect_right_mono divs v w Hvw) as Hm.
  pose proof (bisect_right_pos divs v ltac:(lia) H0) as Hp.
  pose proof (bisect_right_le_length divs v) as Hb1.
  pose proof (bisect_right_le_length divs w) as Hb2.
  destruct ((bisect_right divs v =? 0) || (length divs <=? bisect_right divs v)) eqn:E1;
  destruct ((bisect_right divs w =? 0) || (length divs <=? bisect_right divs w)) eqn:E2; lia.
Qed.

Lemma sp_parts_desc_nth : forall divs rows i, i < length divs - 1 ->
  nth i (sp_parts_desc divs rows) [] = filter (fun v => sp_part_desc divs v =? i) rows.
Proof.
  intros divs rows i Hi. unfold sp_parts_desc.
  set (f := fun i => filter (fun v => sp_part_desc divs v =? i) rows).
  rewrite nth_indep with (d' := f 0) by (rewrite map_length, seq_length; exact Hi).
  rewrite map_nth. rewrite seq_nth by exact Hi. reflexivity.
Qed.

(* ascending: every key of an earlier output partition is <= every key of a later one *)
Theorem sort_partitions_ordered : forall divs rows i j x y, 2 <= length divs -> keys_above divs rows ->
  i < j -> j < length divs - 1 ->
  In x (nth i (sp_parts divs rows) []) -> In y (nth j (sp_parts divs rows) []) -> (x <= y)%Z.
Proof.
  intros divs rows i j x y Hl Hk Hij Hj Hx Hy.
  apply set_index_partition_exact in Hx; [|lia]. apply set_index_partition_exact in Hy; [|lia].
  destruct Hx as [Hx Ex], Hy as [Hy Ey].
  destruct (Z_le_gt_dec x y) as [H|H]; [exact H|].
  assert (Hm : sp_part divs y <= sp_part divs x) by (apply sp_part_mono; [exact Hl|apply Hk; exact Hy|lia]).
  lia.
Qed.

(* descending: every key of an earlier output partition is >= every key of a later one *)
Theorem sort_desc_partitions_ordered : forall divs rows i j x y, 2 <= length divs -> keys_above divs rows ->
  i < j -> j < length divs - 1 ->
  In x (nth i (sp_parts_desc divs rows) []) -> In y (nth j (sp_parts_desc divs rows) []) -> (y <= x)%Z.
Proof.
  intros divs rows i j x y Hl Hk Hij Hj Hx Hy.
  rewrite sp_parts_desc_nth in Hx by lia. rewrite sp_parts_desc_nth in Hy by lia.
  apply filter_In in Hx. apply filter_In in Hy.
  destruct Hx as [Hx Ex], Hy as [Hy Ey].
  destruct (Z_le_gt_dec y x) as [H|H]; [exact H|].
  assert (Hm : sp_part_desc divs y <= sp_part_desc divs x) by (apply sp_part_desc_anti; [exact Hl|apply Hk; exact Hx|lia]).
  lia.
Qed.

(* the hypothesis is needed: a key below the first division is sent to the last partition (ascending) *)
Theorem sort_partitions_below_refuted : exists divs rows i j x y, 2 <= length divs /\ i < j /\ j < length divs - 1 /\
  In x (nth i (sp_parts divs rows) []) /\ In y (nth j (sp_parts divs rows) []) /\ (y < x)%Z.
Proof.
  exists [10; 20; 30]%Z, [15; 5]%Z, 0, 1, 15%Z, 5%Z. vm_compute.
  repeat split; try lia; left; reflexivity.
Qed.

Example sort_desc_example :
  sp_parts_desc [0; 10; 20; 30]%Z [30; 0; 10; 29; 9; 20]%Z = [[30; 29; 20]; [10]; [0; 9]]%Z /\
  keys_above [0; 10; 20; 30]%Z [30; 0; 10; 29; 9; 20]%Z.
Proof. split; [vm_compute; reflexivity|]. intros v Hv. simpl in Hv. simpl. lia. Qed.
Lemma filter_split_len : forall (f : Z -> nat) n rows,
  length (filter (fun v => f v <? n) rows) + length (filter (fun v => f v =? n) rows)
  = length (filter (fun v => f v <? S n) rows).
Proof.
  intros f n rows. induction rows as [|v r IH]; simpl; [reflexivity|].
  destruct (f v <? n) eqn:E1; destruct (f v =? n) eqn:E2; destruct (f v <? S n) eqn:E3; simpl; lia.
Qed.

Lemma route_length_lt : forall (f : Z -> nat) rows n,
  length (concat (map (fun i => filter (fun v => f v =? i) rows) (seq 0 n)))
  = length (filter (fun v => f v <? n) rows).
Proof.
  intros f rows n. induction n as [|n IH].
  - simpl. induction rows as [|v r IHr]; simpl; [reflexivity|]. exact IHr.
  - rewrite seq_S, map_app, concat_app, app_length, IH. simpl. rewrite app_nil_r.
    apply filter_split_len.
Qed.

(* the output partitions hold exactly as many rows as the input: with set_index_partition_exact, no row is duplicated *)
Theorem set_index_row_count : forall divs rows, 2 <= length divs ->
  length (concat (sp_parts divs rows)) = length rows.
Proof.
  intros divs rows Hl. unfold sp_parts. rewrite route_length_lt.
  rewrite filter_all_true; [reflexivity|].
  intros v _. pose proof (sp_part_bound divs v Hl). lia.
Qed.
