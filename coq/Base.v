(* Base.v -- list utilities shared by all model files.  Stdlib only, no axioms. *)
From Coq Require Export List Arith ZArith Bool Lia.
Export ListNotations.

Set Implicit Arguments.

(* partition_all k l  (toolz.partition_all): consecutive batches of k elements, the
   last one possibly shorter; fuel = length l suffices when 1 <= k. *)
Fixpoint part_all_f {A} (fuel k : nat) (l : list A) : list (list A) :=
  match fuel with
  | 0 => []
  | S f => match l with
           | [] => []
           | _ => firstn k l :: part_all_f f k (skipn k l)
           end
  end.
Definition part_all {A} (k : nat) (l : list A) : list (list A) := part_all_f (length l) k l.

Lemma part_all_f_concat : forall A fuel k (l : list A),
  1 <= k -> length l <= fuel -> concat (part_all_f fuel k l) = l.
Proof.
  induction fuel as [|f IH]; intros k l Hk Hl.
  - destruct l; simpl in *; [reflexivity|lia].
  - destruct l as [|x xs]; [reflexivity|].
    cbn [part_all_f concat]. rewrite IH.
    + apply firstn_skipn.
    + exact Hk.
    + rewrite skipn_length. cbn [length] in *. lia.
Qed.

Lemma part_all_concat : forall A k (l : list A), 1 <= k -> concat (part_all k l) = l.
Proof. intros. apply part_all_f_concat; auto. Qed.

Lemma part_all_f_map : forall A B (g : A -> B) fuel k (l : list A),
  part_all_f fuel k (map g l) = map (map g) (part_all_f fuel k l).
Proof.
  induction fuel as [|f IH]; intros k l; [reflexivity|].
  destruct l as [|x xs]; [reflexivity|].
  change (map g (x :: xs)) with (map g (x::xs)).
  cbn [part_all_f]. 
  remember (x :: xs) as l0.
  assert (Hm : map g l0 <> []) by (subst; discriminate).
  destruct (map g l0) as [|y ys] eqn:E; [congruence|].
  rewrite <- E. cbn [map]. rewrite firstn_map, <- IH, skipn_map. reflexivity.
Qed.

Lemma part_all_map : forall A B (g : A -> B) k (l : list A),
  part_all k (map g l) = map (map g) (part_all k l).
Proof. intros. unfold part_all. rewrite map_length. apply part_all_f_map. Qed.

Lemma part_all_f_nonempty : forall A fuel k (l b : list A),
  1 <= k -> In b (part_all_f fuel k l) -> b <> [] /\ length b <= k.
Proof.
  induction fuel as [|f IH]; intros k l b Hk Hin; [inversion Hin|].
  destruct l as [|x xs]; [inversion Hin|].
  cbn [part_all_f] in Hin. destruct Hin as [<-|Hin].
  - split.
    + destruct k; [lia|]. simpl. discriminate.
    + apply firstn_le_length.
  - eapply IH; eauto.
Qed.

(* length of partition_all output: strictly fewer batches than elements when 2 <= k and 2 <= |l| *)
Lemma part_all_f_length_le : forall A fuel k (l : list A),
  1 <= k -> length (part_all_f fuel k l) <= length l.
Proof.
  induction fuel as [|f IH]; intros k l Hk; simpl; [lia|].
  destruct l as [|x xs]; simpl; [lia|].
  destruct k as [|k']; [lia|].
  simpl. specialize (IH (S k') (skipn k' xs) Hk). rewrite skipn_length in IH. lia.
Qed.

Lemma part_all_f_length_lt : forall A fuel k (l : list A),
  2 <= k -> 2 <= length l -> length l <= fuel -> length (part_all_f fuel k l) < length l.
Proof.
  intros A fuel k l Hk Hl Hf.
  destruct fuel as [|f]; [lia|].
  destruct l as [|x [|y ys]]; simpl in Hl; try lia.
  cbn [part_all_f].
  destruct k as [|[|k']]; try lia.
  cbn [skipn length].
  pose proof (@part_all_f_length_le A f (S (S k')) (skipn k' ys)) as H.
  rewrite skipn_length in H. simpl. lia.
Qed.

(* nth over seq reproduces the list *)
Lemma map_nth_seq_from : forall A (d : A) (l pre : list A),
  map (fun i => nth i (pre ++ l) d) (seq (length pre) (length l)) = l.
Proof.
  intros A d l. induction l as [|x xs IH]; intros pre; [reflexivity|].
  cbn [length seq map]. f_equal.
  - rewrite app_nth2 by lia. rewrite Nat.sub_diag. reflexivity.
  - specialize (IH (pre ++ [x])). rewrite <- app_assoc in IH. cbn [app] in IH.
    rewrite app_length in IH. cbn [length] in IH. rewrite Nat.add_1_r in IH. exact IH.
Qed.
Lemma map_nth_seq : forall A (d : A) (l : list A), map (fun i => nth i l d) (seq 0 (length l)) = l.
Proof. intros A d l. exact (map_nth_seq_from d l []). Qed.

Fixpoint sumZ (l : list Z) : Z := match l with [] => 0%Z | x :: r => (x + sumZ r)%Z end.
Lemma sumZ_app : forall a b, sumZ (a ++ b) = (sumZ a + sumZ b)%Z.
Proof. induction a; simpl; intros; [reflexivity|rewrite IHa; lia]. Qed.
Lemma sumZ_concat : forall ls, sumZ (map sumZ ls) = sumZ (concat ls).
Proof. induction ls; simpl; [reflexivity|rewrite sumZ_app, IHls; reflexivity]. Qed.

Fixpoint sumN (l : list nat) : nat := match l with [] => 0 | x :: r => x + sumN r end.
Lemma sumN_app : forall a b, sumN (a ++ b) = sumN a + sumN b.
Proof. induction a; simpl; intros; [reflexivity|rewrite IHa; lia]. Qed.
