(* Loc.v -- label slicing `df.loc[lo:hi]` on a collection with known divisions (_indexing.py: LocSlice, and
   dask.dataframe.indexing._partition_of_index_value), and index arithmetic applied to divisions (Binop._divisions).
   Definitions only; theorems in LocProofs.v.  Stdlib only, no axioms.
   Partitions are sorted by index (pandas label slicing on a monotonic index keeps exactly the labels in the closed range). *)
From DX Require Import Base Divisions.

(* bisect.bisect_right(divs, v): number of leading entries <= v, for a sorted list *)
Fixpoint bisect_right (divs : list Z) (v : Z) : nat :=
  match divs with
  | [] => 0
  | d :: r => if (d <=? v)%Z then S (bisect_right r v) else 0
  end.

(* min(len(divisions) - 2, max(0, i - 1)) *)
Definition part_of (divs : list Z) (v : Z) : nat :=
  Nat.min (length divs - 2) (Nat.max 0 (bisect_right divs v - 1)).

(* LocSlice.start / .stop : partition numbers of the first and last touched input partition; a reversed slice keeps
   stop >= start (fix D45) *)
Definition ls_start (divs : list Z) (lo : option Z) : nat :=
  match lo with None => 0 | Some v => part_of divs v end.
Definition ls_stop (divs : list Z) (lo hi : option Z) : nat :=
  match hi with None => length divs - 2 | Some v => Nat.max (part_of divs v) (ls_start divs lo) end.

Definition ge_lo (lo : option Z) (x : Z) : bool := match lo with None => true | Some v => (v <=? x)%Z end.
Definition le_hi (hi : option Z) (x : Z) : bool := match hi with None => true | Some v => (x <=? v)%Z end.
Definition in_slice (lo hi : option Z) (x : Z) : bool := ge_lo lo x && le_hi hi x.

(* output partition i of the slice: input partition start + i; the first is cut below, the last above, the only one both *)
Definition ls_part (parts : list (list Z)) (lo hi : option Z) (start stop i : nat) : list Z :=
  let p := nth (start + i) parts [] in
  if stop =? start then filter (in_slice lo hi) p
  else if i =? 0 then filter (ge_lo lo) p
  else if start + i =? stop then filter (le_hi hi) p
  else p.

Definition loc_parts (divs : list Z) (parts : list (list Z)) (lo hi : option Z) : list (list Z) :=
  let start := ls_start divs lo in
  let stop := ls_stop divs lo hi in
  map (ls_part parts lo hi start stop) (seq 0 (stop - start + 1)).

(* the WRONG reading that made partitions[i] of a slice return other rows (defect D42): output i from input i *)
Definition loc_parts_unshifted (divs : list Z) (parts : list (list Z)) (lo hi : option Z) : list (list Z) :=
  let start := ls_start divs lo in
  let stop := ls_stop divs lo hi in
  map (ls_part parts lo hi 0 (stop - start)) (seq 0 (stop - start + 1)).

(* LocSlice.istart / istop and _divisions *)
Definition ls_istart (divs : list Z) (lo hi : option Z) : Z :=
  match lo with
  | Some v => v
  | None => match hi with None => hd 0%Z divs | Some h => Z.min (hd 0%Z divs) h end
  end.
Definition ls_istop (divs : list Z) (lo hi : option Z) : Z :=
  match hi with
  | Some v => v
  | None => match lo with None => last divs 0%Z | Some l => Z.max (last divs 0%Z) l end
  end.

Definition loc_divisions (divs : list Z) (lo hi : option Z) : list Z :=
  let start := ls_start divs lo in
  let stop := ls_stop divs lo hi in
  let istart := ls_istart divs lo hi in
  let istop := ls_istop divs lo hi in
  if stop =? start then [istart; Z.max istart istop]
  else
    let div_start := match lo with None => hd 0%Z divs | Some _ => Z.max istart (nth start divs 0%Z) end in
    let div_stop := match hi with None => last divs 0%Z | Some _ => Z.min istop (nth (S stop) divs 0%Z) end in
    [div_start] ++ firstn (stop - start) (skipn (S start) divs) ++ [div_stop].

(* every partition sorted by index *)
Definition parts_sorted (parts : list (list Z)) : Prop := forall p, In p parts -> sortedZ p.

(* ---- index arithmetic: divisions mapped through a function of the index ---- *)
Definition strictly_increasing_fn (f : Z -> Z) : Prop := forall x y, (x < y)%Z -> (f x < f y)%Z.
Definition nondecreasing_fn (f : Z -> Z) : Prop := forall x y, (x <= y)%Z -> (f x <= f y)%Z.
Definition map_parts (f : Z -> Z) (parts : list (list Z)) : list (list Z) := map (map f) parts.
