(* driver.ml -- trusted glue around the extracted model (Model = coq/model.ml).
   One request per input line, an S-expression (fn arg ...); one answer per output line.
   Atoms: integers, identifiers; lists in parentheses.  none / (some x) for option,
   true / false for bool. *)
open Model

type sx = A of string | L of sx list

let parse (s : string) : sx =
  let n = String.length s in
  let pos = ref 0 in
  let rec skip () = if !pos < n && (s.[!pos] = ' ' || s.[!pos] = '\t') then (incr pos; skip ()) in
  let rec item () =
    skip ();
    if !pos >= n then failwith "eof"
    else if s.[!pos] = '(' then begin
      incr pos;
      let rec items acc =
        skip ();
        if !pos >= n then failwith "unclosed"
        else if s.[!pos] = ')' then (incr pos; L (List.rev acc))
        else let x = item () in items (x :: acc) in
      items []
    end else if s.[!pos] = '"' then begin
      incr pos;
      let b = Buffer.create 16 in
      while s.[!pos] <> '"' do Buffer.add_char b s.[!pos]; incr pos done;
      incr pos; A ("\"" ^ Buffer.contents b ^ "\"")
    end else begin
      let st = !pos in
      while !pos < n && s.[!pos] <> ' ' && s.[!pos] <> '(' && s.[!pos] <> ')' do incr pos done;
      A (String.sub s st (!pos - st))
    end in
  item ()

let rec show (x : sx) : string = match x with
  | A s -> s
  | L l -> "(" ^ String.concat " " (List.map show l) ^ ")"

(* ---- conversions native <-> extracted ---- *)
let rec nat_of_int (i : int) : nat = if i <= 0 then O else S (nat_of_int (i - 1))
let rec int_of_nat (n : nat) : int = match n with O -> 0 | S m -> 1 + int_of_nat m
let rec pos_of_int (i : int) : positive =
  if i <= 1 then XH else if i land 1 = 0 then XO (pos_of_int (i lsr 1)) else XI (pos_of_int (i lsr 1))
let rec int_of_pos (p : positive) : int = match p with XH -> 1 | XO q -> 2 * int_of_pos q | XI q -> 2 * int_of_pos q + 1
let z_of_int (i : int) : z = if i = 0 then Z0 else if i > 0 then Zpos (pos_of_int i) else Zneg (pos_of_int (- i))
let int_of_z (x : z) : int = match x with Z0 -> 0 | Zpos p -> int_of_pos p | Zneg p -> - (int_of_pos p)

let get_int = function A s -> int_of_string s | _ -> failwith "int expected"
let get_nat x = nat_of_int (get_int x)
let get_z x = z_of_int (get_int x)
let get_bool = function A "true" -> true | A "false" -> false | _ -> failwith "bool expected"
let get_list f = function L l -> List.map f l | _ -> failwith "list expected"
let get_opt f = function A "none" -> None | L [A "some"; x] -> Some (f x) | _ -> failwith "option expected"
let get_pair f g = function L [a; b] -> (f a, g b) | _ -> failwith "pair expected"
let get_atom = function A s -> s | _ -> failwith "atom expected"

let of_int i = A (string_of_int i)
let of_nat n = of_int (int_of_nat n)
let of_z x = of_int (int_of_z x)
let of_bool b = A (if b then "true" else "false")
let of_list f l = L (List.map f l)
let of_opt f = function None -> A "none" | Some x -> L [A "some"; f x]
let of_pair f g (a, b) = L [f a; g b]

let sort_uniq_nat (l : nat list) : sx =
  of_list of_int (List.sort_uniq compare (List.map int_of_nat l))
let of_gtask g = L [of_opt of_nat g.gt_input; of_opt sort_uniq_nat g.gt_filter; of_nat g.gt_stage;
                    of_nat g.gt_k; of_nat g.gt_np; of_nat g.gt_nfinal]
let of_stage sl = L [of_list (of_list (of_pair of_nat of_nat)) sl.sl_outs; of_list of_nat sl.sl_parts;
                     of_list (of_pair of_nat of_gtask) sl.sl_groups]
let of_regroup = function NoRegroup -> A "noregroup"
  | Regroup (a, b, gets) -> L [A "regroup"; of_nat a; of_nat b; of_list (of_pair of_nat of_nat) gets]
let of_shuffle l = L [of_list of_stage l.sh_stages; of_regroup l.sh_regroup]
let rec get_pred = function
  | L [A "a"; n] -> PAtom (get_nat n)
  | L [A "and"; l; r] -> PAnd (get_pred l, get_pred r)
  | L [A "or"; l; r] -> POr (get_pred l, get_pred r)
  | _ -> failwith "pred"
let rec of_pred = function
  | PAtom n -> L [A "a"; of_nat n]
  | PAnd (l, r) -> L [A "and"; of_pred l; of_pred r]
  | POr (l, r) -> L [A "or"; of_pred l; of_pred r]
let get_bop = function A "add" -> BAdd | A "sub" -> BSub | A "mul" -> BMul | A "lt" -> BLt | A "le" -> BLe | A "gt" -> BGt
  | A "ge" -> BGe | A "eq" -> BEq | A "ne" -> BNe | A "and" -> BAnd | A "or" -> BOr | _ -> failwith "bop"
let get_uop = function A "neg" -> UNeg | A "abs" -> UAbs | A "isna" -> UIsNa | A "notnull" -> UNotNull | A "invert" -> UInvert | _ -> failwith "uop"
let rec get_expr = function
  | L [A "src"; id; cs] -> Src (get_nat id, get_list get_nat cs)
  | L [A "srcs"; id; c] -> SrcS (get_nat id, get_nat c)
  | L [A "proj"; e; cs] -> Proj (get_expr e, get_list get_nat cs)
  | L [A "projs"; e; c] -> ProjS (get_expr e, get_nat c)
  | L [A "filter"; e; p] -> Filter (get_expr e, get_expr p)
  | L [A "binl"; o; e; z] -> BinL (get_bop o, get_expr e, get_z z)
  | L [A "binr"; o; z; e] -> BinR (get_bop o, get_z z, get_expr e)
  | L [A "bin"; o; a; b] -> Bin (get_bop o, get_expr a, get_expr b)
  | L [A "un"; u; e] -> Un (get_uop u, get_expr e)
  | L [A "fillna"; e; z] -> Fillna (get_expr e, get_z z)
  | L [A "assign"; e; k; v] -> Assign (get_expr e, get_nat k, get_expr v)
  | L [A "rename"; e; m] -> Rename (get_expr e, get_list (get_pair get_nat get_nat) m)
  | L [A "rsum"; e] -> RSum (get_expr e)
  | L [A "rcount"; e] -> RCount (get_expr e)
  | L [A "rlen"; e] -> RLen (get_expr e)
  | _ -> failwith "expr"
let of_cell = of_opt of_z
let of_obj = function
  | OFrame (cs, rows) -> L [A "frame"; of_list of_nat cs; of_list (of_pair of_nat (of_list of_cell)) rows]
  | OSeries rows -> L [A "series"; of_list (of_pair of_nat of_cell) rows]
  | OScalar c -> L [A "scalar"; of_cell c]
  | ORow (cs, vals) -> L [A "row"; of_list of_nat cs; of_list of_cell vals]
let get_cell = get_opt get_z
let get_barg = function L [A "lit"; z] -> ALit (get_nat z) | L [A "dep"; n; np; nd] -> ADep (get_nat n, get_nat np, get_nat nd) | _ -> failwith "barg"
let rec get_member = function
  | L [A "plain"; n; np; nd; args] -> MPlain (get_nat n, get_nat np, get_nat nd, get_list get_barg args)
  | L [A "fused"; n; np; group; deps] -> MFused (get_nat n, get_nat np, get_list get_member group, get_list (get_pair get_nat get_nat) deps)
  | _ -> failwith "member"
let of_gkey = function KName n -> L [A "name"; of_nat n] | KPart (n, i) -> L [A "part"; of_nat n; of_nat i] | KPlace j -> L [A "place"; of_nat j]
let of_garg = function GKey k -> of_gkey k | GLit z -> L [A "lit"; of_nat z]
let of_gtask = function TAlias k -> L [A "alias"; of_gkey k] | TCall (fn, args) -> L [A "call"; of_nat fn; of_list of_garg args]
let cmp_of_idx = function 0 -> CEq | 1 -> CNe | 2 -> CLt | 3 -> CLe | 4 -> CGt | 5 -> CGe | _ -> failwith "cmp"
let idx_of_cmp = function CEq -> 0 | CNe -> 1 | CLt -> 2 | CLe -> 3 | CGt -> 4 | CGe -> 5
let rec get_ptree = function
  | L [A "cmp"; c; o; v] -> PCmp { a_col = get_nat c; a_op = cmp_of_idx (get_int o); a_val = get_z v }
  | L [A "flip"; c; o; v] -> PCmpFlip { a_col = get_nat c; a_op = cmp_of_idx (get_int o); a_val = get_z v }
  | L [A "and"; l; r] -> PAndT (get_ptree l, get_ptree r)
  | L [A "or"; l; r] -> POrT (get_ptree l, get_ptree r)
  | A "other" -> POther
  | _ -> failwith "ptree"
let of_atom a = L [of_nat a.a_col; of_int (idx_of_cmp a.a_op); of_z a.a_val]
(*DISPATCH-BEGIN*)
let dispatch (fn : string) (args : sx list) : sx =
  match fn, args with
  | "tree_layer", [se; n] ->
      let n = get_nat n in
      of_opt (of_list (of_list (of_list of_nat))) (tree_layer n (get_opt get_nat se) n)
  | "repart_plan", [a; b; force] ->
      let of_slice s = L [of_nat s.s_src; of_z s.s_lo; of_z s.s_hi; of_bool s.s_closed] in
      let of_out = function ODummy -> A "dummy" | OAlias k -> L [A "alias"; of_nat k]
                          | OConcat ks -> L [A "concat"; of_list of_nat ks] in
      of_opt (fun p -> L [of_list of_slice p.p_slices; of_list of_out p.p_outs])
        (repart_plan (get_list get_z a) (get_list get_z b) (get_bool force))
  | "plan_ok", [a; b; slices; outs] ->
      let get_slice = function L [src; lo; hi; c] -> { s_src = get_nat src; s_lo = get_z lo; s_hi = get_z hi; s_closed = get_bool c }
                             | _ -> failwith "slice" in
      let get_out = function A "dummy" -> ODummy | L [A "alias"; k] -> OAlias (get_nat k)
                           | L [A "concat"; ks] -> OConcat (get_list get_nat ks) | _ -> failwith "out" in
      of_bool (plan_ok (get_list get_z a) (get_list get_z b) { p_slices = get_list get_slice slices; p_outs = get_list get_out outs })
  | "clean_boundaries", [bs; n] -> of_list of_nat (clean_boundaries (get_list get_nat bs) (get_nat n))
  | "fewer_ranges", [bs] -> of_list (of_list of_nat) (fewer_ranges (get_list get_nat bs))
  | "more_nsplits", [a; b] -> of_list of_nat (more_nsplits (get_nat a) (get_nat b))
  | "more_layer", [ns] ->
      of_list (function MAlias i -> L [A "alias"; of_nat i] | MPiece (i, jj) -> L [A "piece"; of_nat i; of_nat jj])
        (more_layer (get_list get_nat ns))
  | "task_or_simple", [n_in; n_out; mb; k; stages; sel; filtered] ->
      of_shuffle (task_or_simple (get_nat n_in) (get_nat n_out) (get_nat mb) (get_nat k) (get_nat stages)
                    (get_list get_nat sel) (get_bool filtered))
  | "simple_layer", [n_in; n_out; sel; filtered] ->
      of_shuffle (simple_layer (get_nat n_in) (get_nat n_out) (get_list get_nat sel) (get_bool filtered))
  | "rewrite_filters", [p] -> of_pred (rewrite_filters (get_pred p))
  | "lru_run", [maxsize; ops] ->
      (* ops: (c k) contains | (g k) getitem | (s k v) setitem ; values are nats *)
      let st = ref { items = []; maxsize = get_nat maxsize } in
      let outs = List.map (fun op -> match op with
        | L [A "c"; k] -> of_bool (contains !st (get_nat k))
        | L [A "g"; k] -> let (v, s') = getitem !st (get_nat k) in st := s'; of_opt of_nat v
        | L [A "s"; k; v] -> (match setitem !st (get_nat k) (get_nat v) with
                              | Some s' -> st := s'; A "ok" | None -> A "keyerror")
        | _ -> failwith "lru op") (match ops with L l -> l | _ -> failwith "ops") in
      L [L outs; of_list (of_pair of_nat of_nat) !st.items]
  | "wf_check", [g; outs] ->
      let get_node = function L [k; deps] -> { g_key = get_nat k; g_deps = get_list get_nat deps } | _ -> failwith "node" in
      of_bool (wf_check (get_list get_node g) (get_list get_nat outs))
  | "rule_name", [p; r] -> of_nat (rule_name (get_expr p) (get_expr r))
  | "den", [tables; e] ->
      (* tables: ((id (cols) ((rid (cells)) ...)) ...) *)
      let tabs = get_list (function L [id; cs; rows] ->
                    (get_int id, (get_list get_nat cs, get_list (get_pair get_nat (get_list get_cell)) rows)) | _ -> failwith "table") tables in
      let rho = fun n -> List.assoc_opt (int_of_nat n) tabs in
      of_opt of_obj (den rho (get_expr e))
  | "fused_task", [self; group; deps; index] ->
      let ((g, root), dks) = fused_task (get_nat self) (get_list get_member group) (get_list (get_pair get_nat get_nat) deps) (get_nat index) in
      let entries = List.sort compare (List.map (fun (k, t) -> show (L [of_gkey k; of_gtask t])) g) in
      L [L (List.map (fun x -> A x) entries); of_gkey root; of_list of_gkey dks]
  | "valid_group", [self; group; deps] ->
      L [of_bool (valid_group (get_list get_member group) (get_list (get_pair get_nat get_nat) deps));
         of_bool (self_fresh (get_nat self) (get_list get_member group))]
  | "partitions_divisions", [divs; sel] -> of_opt (of_list of_z) (partitions_divisions (get_list get_z divs) (get_list get_nat sel))
  | "fusion_buckets", [sel; step] -> of_list (of_list of_nat) (fusion_buckets (get_list get_nat sel) (get_nat step))
  | "fused_divisions", [divs; buckets] -> of_list of_z (fused_divisions (get_list get_z divs) (get_list (get_list get_nat) buckets))
  | "fewer_divisions", [divs; bs] -> of_list of_z (fewer_divisions (get_list get_z divs) (get_list get_nat bs))
  | "head_divisions", [divs; k] -> of_list of_z (head_divisions (get_list get_z divs) (get_nat k))
  | "bhead_divisions", [divs; k] -> of_list of_z (bhead_divisions (get_list get_z divs) (get_nat k))
  | "tail_divisions", [divs] -> of_list of_z (tail_divisions (get_list get_z divs))
  | "concat_divisions", [ds] -> of_opt (of_list of_z) (concat_divisions (get_list (get_list get_z) ds))
  | "truthfulb", [divs; parts] -> of_bool (truthfulb (get_list get_z divs) (get_list (get_list get_z) parts))
  | "stats_divisions", [l] ->
      of_opt (of_pair (of_list of_z) (of_list of_nat)) (stats_divisions (get_list (get_pair get_z get_z) l))
  | "presorted_divisions", [l] -> of_opt (of_list of_z) (presorted_divisions (get_list (get_pair get_z get_z) l))
  | "align_divisions", [ds] -> of_list of_z (align_divisions (get_list (get_list get_z) ds))
  | "align_single", [ds] -> of_list of_z (align_single (get_list (get_list get_z) ds))
  | "head_lowered", [n; k; parts] -> of_list of_z (head_lowered (get_nat n) (get_nat k) (get_list (get_list get_z) parts))
  | "tail_lowered", [n; parts] -> of_list of_z (tail_lowered (get_nat n) (get_list (get_list get_z) parts))
  | "nfirst_tree", [n; parts] ->
      of_list (of_pair of_z of_z) (nfirst_tree fst (get_nat n) (get_list (get_list (get_pair get_z get_z)) parts))
  | "nfirst_spec", [n; parts] ->
      of_list (of_pair of_z of_z) (nfirst_spec fst (get_nat n) (get_list (get_list (get_pair get_z get_z)) parts))
  | "loc_model", [divs; parts; lo; hi] ->
      let d = get_list get_z divs and ps = get_list (get_list get_z) parts and l = get_opt get_z lo and h = get_opt get_z hi in
      (* nested like the Coq tuple (start, stop, divisions, parts) = (((start, stop), divisions), parts) *)
      L [L [L [of_nat (ls_start d l); of_nat (ls_stop d l h)]; of_list of_z (loc_divisions d l h)]; of_list (of_list of_z) (loc_parts d ps l h)]
  | "loclist_model", [divs; parts; labels] ->
      let d = get_list get_z divs and ps = get_list (get_list get_z) parts and ls = get_list get_z labels in
      L [of_list of_z (ll_divisions d ls); of_list (of_list of_z) (ll_parts d ps ls)]
  | "sp_model", [divs; rows] ->
      let d = get_list get_z divs and r = get_list get_z rows in
      L [of_list of_nat (List.map (sp_part d) r); of_list (of_list of_z) (sp_parts d r)]
  | "sp_model_desc", [divs; rows] ->
      let d = get_list get_z divs and r = get_list get_z rows in
      L [of_list of_nat (List.map (sp_part_desc d) r); of_list (of_list of_z) (sp_parts_desc d r)]
  | "dnf_extract", [t] -> of_opt (of_list (of_list of_atom)) (extract (get_ptree t))
  | _ -> failwith ("unknown request " ^ fn)
(*DISPATCH-END*)

let () =
  try
    while true do
      let line = input_line stdin in
      if String.length line > 0 then begin
        let out =
          try (match parse line with
               | L (A fn :: args) -> show (dispatch fn args)
               | _ -> "(error bad-request)")
          with e -> "(error \"" ^ Printexc.to_string e ^ "\")" in
        print_string out; print_newline ()
      end
    done
  with End_of_file -> ()
